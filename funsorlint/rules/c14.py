"""C14 - point masses and samples (structural clauses only).

Mass preservation of sampling and the Delta identities are numerical statements over arrays and random draws and are NOT decided.
Decided is what is visible in the shape of the code: that a Delta matches a ground value only on all coordinates, that the two
Delta-plus-funsor rules are mirror images which substitute exactly the points the other operand mentions, that integrating against
a Delta substitutes only integrated names, that Tensor._sample decodes the flat categorical draw as a mixed-radix number in the
order it was flattened and returns the normaliser over exactly the flattened axis, and that every nested _sample call is handed a
random key derived from the one received.  Nothing of the repository is executed.
"""
from __future__ import annotations

import ast
from typing import Dict, List, Optional

from ..catalogue import Catalogue
from ..model import AnalysisError, Func, Program, norm
from ..report import Collector
from .common import Refs, require_func, walk_no_nested

EXPLANATION = (
    "Structural clauses of C14. R14.1 (= C04 R04.16): Delta.eager_subs compares a ground value with the point on ALL coordinates. "
    "R14.2: the rules Delta (+|-) funsor and funsor (+|-) Delta substitute into the other operand exactly the points of the names that "
    "operand mentions (a comprehension over the Delta's terms filtered by membership in the other operand's inputs), re-apply the op to "
    "(lhs, rhs) in the order received. R14.3 (= C04 R04.20): Integrate against a Delta substitutes "
    "the points of integrated names only. R14.4: in Tensor._sample the data are aligned to batch inputs followed by sampled inputs and "
    "flattened over the trailing (sampled) dims; the flat draw is decoded by walking the sampled inputs in REVERSED order, taking "
    "`% size` before `// size`; every decoded point is a Tensor over the sample+batch inputs with dtype = size of its input; the "
    "normaliser term is the logsumexp of the flattened logits over the last axis, declared over the batch inputs. R14.5: every "
    "implementation of _sample that calls _sample of a sub-term passes on its rng_key (or a key obtained by splitting it) together with "
    "its sample_inputs unchanged."
    ' R14.7: the maximum subtracted before exp() in Tensor._sample is taken along the axis the probabilities are normalised over. R14.8: Delta + Delta merges the terms only after both orientations (lhs.fresh against rhs.inputs and the mirror image) were tested. R14.9: every eager_reduce method hands the remaining variables on with its own op, or with a constant op the path has established to be that op. R14.10: an op applied to funsor-valued expressions in Delta.eager_subs has a default implementation that does not merely raise (Numbers carry Python scalars).'
    " R14.11: what Contraction._sample subtracts from the result's terms was added to the weights it samples. R14.12 (= C13 R13.13). R14.13: monte_carlo_approximate returns sample + model - guide (signed-sum comparison)."
)
ASSUMPTIONS = ["the categorical draw itself, Gaussian sampling and all values are not decided"]
RULE_TEXT = "one obligation per rule site"


def run(prog: Program, col: Collector, tier: str, refs: Optional[Refs] = None, cat: Optional[Catalogue] = None):
    refs = refs or Refs(prog)
    cat = cat or Catalogue(prog, refs)
    from . import c04

    col.rule("R14.1", "substituting a ground value into a Delta matches only if ALL coordinates of the point are equal", floor=1)
    c04._delta_match(prog, col, refs, cat)

    # ---------------------------------------------------------------- R14.2
    col.rule("R14.2", "Delta +/- funsor substitutes exactly the points the other operand mentions, and the two rules are mirror images", floor=2)
    d_f = require_func(prog, "funsor.delta::eager_add_delta_funsor")
    f_d = require_func(prog, "funsor.delta::eager_add_funsor_delta")
    shapes = {}
    for f, delta_is_lhs in ((d_f, True), (f_d, False)):
        opn, lhs, rhs = f.positional
        dn, on = (lhs, rhs) if delta_is_lhs else (rhs, lhs)
        construct = f"{f.fq}::points substituted into `{on}`"
        comps = [c for c in ast.walk(f.node) if isinstance(c, ast.DictComp)]
        ok = False
        why = "no substitution of the Delta's points into the other operand found"
        for c in comps:
            g = c.generators[0]
            it_ok = isinstance(g.iter, ast.Attribute) and g.iter.attr == "terms" and norm(g.iter.value) == dn
            tgt = g.target
            name_v = tgt.elts[0].id if isinstance(tgt, ast.Tuple) and isinstance(tgt.elts[0], ast.Name) else None
            point_v = tgt.elts[1].elts[0].id if isinstance(tgt, ast.Tuple) and len(tgt.elts) == 2 and isinstance(tgt.elts[1], ast.Tuple) and isinstance(tgt.elts[1].elts[0], ast.Name) else None
            filt = [t for t in g.ifs if isinstance(t, ast.Compare) and len(t.ops) == 1 and isinstance(t.ops[0], ast.In) and norm(t.left) == name_v
                    and norm(t.comparators[0]) in (f"{on}.inputs", f"{on}.input_vars")]
            if not it_ok:
                why = f"the points are taken from `{norm(g.iter)}`, not from the terms of the Delta operand `{dn}`"
            elif norm(c.key) != name_v or norm(c.value) != point_v:
                why = f"the substitution maps `{norm(c.key)}` to `{norm(c.value)}`, not each name to its point"
            elif len(g.ifs) != 1 or not filt:
                why = f"the points are filtered by `{' and '.join(norm(t) for t in g.ifs) or 'nothing'}`, not by membership of the name in `{on}.inputs`"
            else:
                # the comprehension is ** -applied to the other operand
                par = f.module.parent.get(c)
                call = f.module.parent.get(par) if isinstance(par, ast.keyword) else None
                ok = isinstance(call, ast.Call) and norm(call.func) == on
                why = "" if ok else f"the points are not substituted into `{on}`"
        col.check(ok, construct, f"{on}(**{{name: point for name, (point, _) in {dn}.terms if name in {on}.inputs}})", why + ": adding a unit Delta and reducing its variable "
                  "must evaluate the other operand at the point - at the names it has, and only those", f.loc())
        rets = [r for r in walk_no_nested(f.node) if isinstance(r, ast.Return) and isinstance(r.value, ast.Call) and norm(r.value.func) == opn]
        order_ok = bool(rets) and all(len(r.value.args) == 2 and norm(r.value.args[0]) == lhs and norm(r.value.args[1]) == rhs for r in rets)
        col.check(order_ok, f"{f.fq}::operand order", f"{opn}({lhs}, {rhs})",
                  f"the op is re-applied as `{norm(rets[0].value) if rets else '?'}`: the rule is registered for AddOp and SubOp, and lhs - rhs is not rhs - lhs", f.loc(rets[0]) if rets else f.loc())
        # mirror image: the body with the roles renamed
        import copy
        body = copy.deepcopy(f.node)

        class Ren(ast.NodeTransformer):
            def visit_Name(self, n):
                if n.id == dn:
                    n.id = "DELTA"
                elif n.id == on:
                    n.id = "OTHER"
                return n
        shapes[f.fq] = [ast.unparse(Ren().visit(st)) for st in body.body if not (isinstance(st, ast.Expr) and isinstance(st.value, ast.Constant))]

    # ---------------------------------------------------------------- R14.10 ops applied to the match of a Delta have a Python-scalar implementation
    col.rule("R14.10", "an op applied to funsor-valued expressions in Delta.eager_subs has a default implementation for Python scalars (the data of a Number)", floor=1)
    de = require_func(prog, "funsor.delta::Delta.eager_subs")
    n10 = 0
    for c in ast.walk(de.node):
        if not (isinstance(c, ast.Call) and isinstance(c.func, (ast.Attribute, ast.Name)) and c.args):
            continue
        o = cat.resolve_op(de.module, c.func)
        if o is None:
            continue
        # funsor-valued argument: built with operators / methods from local names (not a raw `.data` array)
        a0 = c.args[0]
        if any(isinstance(y, ast.Attribute) and y.attr == "data" for y in ast.walk(a0)) or not any(isinstance(y, ast.Name) for y in ast.walk(a0)):
            continue
        n10 += 1
        construct = f"{de.fq}::{norm(c)[:50]}"
        impl = o.impl
        if impl is None:
            col.ok(construct, f"default implementation of `{o.name}` is external ({o.impl_ext})", de.loc(c))
            continue
        body = [st for st in impl.body if not (isinstance(st, ast.Expr) and isinstance(st.value, ast.Constant))]
        only_raises = len(body) == 1 and isinstance(body[0], ast.Raise)
        col.check(not only_raises, construct, f"`{o.name}` has a default implementation",
                  f"`{o.name}`'s default implementation only raises ({norm(body[0]) if body else ''}); it is registered for arrays, but here it is applied to a funsor expression "
                  "that is a Number when the Delta's point and the substituted value are Numbers, so the op runs on a Python scalar: Delta('x', Number(2.))(x=2.) raises "
                  "instead of evaluating to the log-density", de.loc(c))
    if n10 == 0:
        col.unresolved(f"{de.fq}::ops on the match", "no op application on funsor-valued expressions found", de.loc())
    # ---------------------------------------------------------------- R14.8 Delta + Delta: both orientations are tested before the terms are merged
    col.rule("R14.8", "Delta + Delta merges the terms only after BOTH operands were tested for mentioning the other's variables", floor=1)
    mm = require_func(prog, "funsor.delta::eager_add_multidelta")
    opn, lhs, rhs = mm.positional
    merges = [r for r in walk_no_nested(mm.node) if isinstance(r, ast.Return) and r.value is not None and any(isinstance(y, ast.Attribute) and y.attr == "terms" for y in ast.walk(r.value))]

    def orientation(t):
        """(X, Y) when the test asks whether X's own variables occur among Y's inputs"""
        while isinstance(t, ast.UnaryOp) and isinstance(t.op, ast.Not):
            t = t.operand
        if isinstance(t, ast.Call) and isinstance(t.func, ast.Attribute) and t.func.attr in ("intersection", "isdisjoint") and isinstance(t.func.value, ast.Attribute) \
                and t.func.value.attr == "fresh" and t.args and isinstance(t.args[0], ast.Attribute) and t.args[0].attr in ("inputs", "input_vars"):
            return norm(t.func.value.value), norm(t.args[0].value)
        if isinstance(t, ast.BinOp) and isinstance(t.op, ast.BitAnd):
            for a_, b_ in ((t.left, t.right), (t.right, t.left)):
                if isinstance(a_, ast.Attribute) and a_.attr == "fresh" and isinstance(b_, ast.Attribute) and b_.attr in ("inputs", "input_vars"):
                    return norm(a_.value), norm(b_.value)
        return None

    for r in merges:
        seen_or = set()
        other = []
        for a in walk_no_nested(mm.node):
            if isinstance(a, ast.If) and a.lineno < r.lineno:
                o = orientation(a.test)
                if o is not None:
                    seen_or.add(o)
                else:
                    other.append(a)
        # an enclosing else-chain counts too (walk_no_nested already yields nested ifs)
        construct = f"{mm.fq}::{norm(r.value)[:50]}"
        missing = [o for o in ((lhs, rhs), (rhs, lhs)) if o not in seen_or]
        if not missing:
            col.ok(construct, f"tested: {lhs}.fresh against {rhs}.inputs and {rhs}.fresh against {lhs}.inputs", mm.loc(r))
        elif other:
            col.unresolved(construct, f"orientation {missing[0]} is not tested by a recognised form (other tests present)", mm.loc(r))
        else:
            x_, y_ = missing[0]
            col.violation(construct, f"the terms are merged without asking whether `{x_}`'s variable occurs in `{y_}`'s point: Delta(y, q) + Delta(x, g(y)) (in that operand order) is no "
                          f"longer evaluated at y = q, so reducing y leaves g(y) with y free, although the mirror-image order is handled", mm.loc(r))
    # ---------------------------------------------------------------- R14.9 what is left after reducing a Delta's own variables is reduced with the SAME op
    col.rule("R14.9", "an eager_reduce method hands the remaining variables on with its own op", floor=4)
    for f in prog.funcs.values():
        if isinstance(f.node, ast.Lambda) or f.name != "eager_reduce" or len(f.positional) < 3:
            continue
        selfn, op_p, rv_p = f.positional[:3]
        for c in ast.walk(f.node):
            if not (isinstance(c, ast.Call) and isinstance(c.func, ast.Attribute) and c.func.attr in ("reduce", "eager_reduce") and len(c.args) == 2):
                continue
            a0 = c.args[0]
            construct = f"{f.fq}::{norm(c)[:60]}"
            if isinstance(a0, ast.Name) and a0.id == op_p:
                col.ok(construct, "the method's own op", f.loc(c))
                continue
            # a constant op is fine where the path has established `op is <that op>`
            established = False
            for g_ in f.module.ancestors(c):
                if isinstance(g_, ast.If):
                    pos = any(c is z for st_ in g_.body for z in ast.walk(st_))
                    t = g_.test
                    while isinstance(t, ast.UnaryOp) and isinstance(t.op, ast.Not):
                        t, pos = t.operand, not pos
                    if isinstance(t, ast.Compare) and len(t.ops) == 1 and isinstance(t.ops[0], (ast.Is, ast.IsNot)) and norm(t.left) == op_p and norm(t.comparators[0]) == norm(a0) \
                            and pos == isinstance(t.ops[0], ast.Is):
                        established = True
            # the ops the path allows for `op`: `op in (A, B)` / `op is A` guards (polarity-aware)
            allowed = None
            for g_ in f.module.ancestors(c):
                if isinstance(g_, ast.If):
                    pos = any(c is z for st_ in g_.body for z in ast.walk(st_))
                    t = g_.test
                    while isinstance(t, ast.UnaryOp) and isinstance(t.op, ast.Not):
                        t, pos = t.operand, not pos
                    if isinstance(t, ast.Compare) and len(t.ops) == 1 and norm(t.left) == op_p:
                        if isinstance(t.ops[0], (ast.In, ast.NotIn)) and isinstance(t.comparators[0], (ast.Tuple, ast.List, ast.Set)) and pos == isinstance(t.ops[0], ast.In):
                            allowed = {norm(e).rsplit(".", 1)[-1] for e in t.comparators[0].elts}
                        elif isinstance(t.ops[0], (ast.Is, ast.IsNot)) and pos == isinstance(t.ops[0], ast.Is):
                            allowed = {norm(t.comparators[0]).rsplit(".", 1)[-1]}
            PLAIN = {"add", "mul", "logaddexp", "max", "min", "and_", "or_"}
            if established:
                col.ok(construct, f"`{op_p} is {norm(a0)}` holds on this path", f.loc(c))
            elif isinstance(a0, (ast.Attribute, ast.Name)) and not (allowed and allowed <= PLAIN and norm(a0).rsplit(".", 1)[-1] in PLAIN):
                col.unresolved(construct, f"reduces with `{norm(a0)}` under `{op_p}` in {sorted(allowed) if allowed else 'no recognised guard'}: a derived reduction the rule does not decide", f.loc(c))
            elif isinstance(a0, (ast.Attribute, ast.Name)):
                col.violation(construct, f"the remaining variables are reduced with `{norm(a0)}` although the method was asked to reduce with `{op_p}` and the path does not establish that the "
                              f"two are the same op: Delta(x, p[i]).reduce(logaddexp, {{x, i}}) returns 0 instead of log|i|", f.loc(c))
            else:
                col.unresolved(construct, f"op argument `{norm(a0)}` not recognised", f.loc(c))
    col.rule("R14.3", "integrating against a Delta substitutes the points of the integrated names only", floor=1)
    c04._delta_integrate(prog, col, refs, cat)

    # ---------------------------------------------------------------- R14.4
    col.rule("R14.4", "Tensor._sample decodes the flat draw in the order it was flattened and returns the normaliser over the flattened axis", floor=4)
    ts = require_func(prog, "funsor.tensor::Tensor._sample")
    selfn, svars, sinp = ts.positional[0], ts.positional[1], ts.positional[2]
    defs: Dict[str, List[ast.Assign]] = {}
    for st in walk_no_nested(ts.node):
        if isinstance(st, ast.Assign) and len(st.targets) == 1 and isinstance(st.targets[0], ast.Name):
            defs.setdefault(st.targets[0].id, []).append(st)

    def role_of_inputs(name):
        """'batch' / 'event' for OrderedDict comprehensions over self.inputs filtered by (not) membership in the sampled vars"""
        for st in defs.get(name, []):
            for g in [x for x in ast.walk(st.value) if isinstance(x, (ast.GeneratorExp, ast.ListComp))]:
                if norm(g.generators[0].iter) == f"{selfn}.inputs.items()" and len(g.generators[0].ifs) == 1:
                    t = g.generators[0].ifs[0]
                    if isinstance(t, ast.Compare) and len(t.ops) == 1 and norm(t.comparators[0]) == svars:
                        return "event" if isinstance(t.ops[0], ast.In) else "batch" if isinstance(t.ops[0], ast.NotIn) else None
        return None
    roles = {nm: role_of_inputs(nm) for nm in defs}
    batch = [n for n, r_ in roles.items() if r_ == "batch"]
    event = [n for n, r_ in roles.items() if r_ == "event"]
    if len(batch) != 1 or len(event) != 1:
        col.unresolved(f"{ts.fq}::partition of the inputs", "batch / sampled partitions of self.inputs not found", ts.loc())
        return col
    B, E = batch[0], event[0]
    # (a) alignment order: a mapping that starts as a copy of B and is updated with E, passed to align_tensor with self
    al = [c for c in walk_no_nested(ts.node) if isinstance(c, ast.Call) and (refs.resolve(c.func) or "").endswith("align_tensor") and len(c.args) >= 2 and norm(c.args[1]) == selfn]
    ok = False
    if al and isinstance(al[0].args[0], ast.Name):
        M = al[0].args[0].id
        starts = [st for st in defs.get(M, []) if norm(st.value) in (f"{B}.copy()", f"OrderedDict({B})")]
        upd = [c for c in walk_no_nested(ts.node) if isinstance(c, ast.Call) and isinstance(c.func, ast.Attribute) and c.func.attr == "update" and norm(c.func.value) == M and c.args
               and norm(c.args[0]) == E]
        ok = bool(starts) and bool(upd)
    col.check(ok, f"{ts.fq}::alignment", f"the logits are aligned to `{B}` followed by `{E}` (batch dims first, sampled dims last)",
              "the data are not aligned to the batch inputs followed by the sampled inputs: the reshape to (batch, -1) then flattens other dims than the sampled ones", ts.loc(al[0]) if al else ts.loc())
    # (b) decoding loop
    loops = [lp for lp in walk_no_nested(ts.node) if isinstance(lp, ast.For) and E in {y.id for y in ast.walk(lp.iter) if isinstance(y, ast.Name)}]
    if len(loops) != 1:
        col.unresolved(f"{ts.fq}::decoding", "the loop over the sampled inputs not found", ts.loc())
        return col
    lp = loops[0]
    rev = isinstance(lp.iter, ast.Call) and isinstance(lp.iter.func, ast.Name) and lp.iter.func.id == "reversed"
    col.check(rev, f"{ts.fq}::for … in {norm(lp.iter)[:40]}", "the sampled inputs are decoded last-to-first (the last one varies fastest in the flattened axis)",
              f"the digits of the flat draw are taken while walking `{norm(lp.iter)[:40]}` front to back: the first sampled input would get the fastest-varying digit, which belongs to the "
              "last one (only with a single sampled input there is no difference)", ts.loc(lp))
    mods = [x for x in ast.walk(lp) if isinstance(x, ast.BinOp) and isinstance(x.op, ast.Mod)]
    divs = [st for st in lp.body if isinstance(st, (ast.Assign, ast.AugAssign)) and any(isinstance(y, ast.BinOp) and isinstance(y.op, ast.FloorDiv) for y in ast.walk(st))
            or (isinstance(st, ast.AugAssign) and isinstance(st.op, ast.FloorDiv))]
    ok = len(mods) == 1 and len(divs) == 1
    if ok:
        mod_stmt = mods[0]
        while not isinstance(mod_stmt, ast.stmt):
            mod_stmt = ts.module.parent.get(mod_stmt)
        carrier = norm(mods[0].left)
        div_t = norm(divs[0].targets[0]) if isinstance(divs[0], ast.Assign) else norm(divs[0].target)
        size_ok = norm(mods[0].right) == (norm(divs[0].value.right) if isinstance(divs[0], ast.Assign) and isinstance(divs[0].value, ast.BinOp) else norm(divs[0].value))
        # the quotient is taken of the carrier itself (not of the original flat draw: the third and later digits would be wrong)
        dv = divs[0].value if isinstance(divs[0], ast.Assign) else None
        numer_ok = isinstance(divs[0], ast.AugAssign) or (isinstance(dv, ast.BinOp) and norm(dv.left) == carrier)
        ok = mod_stmt.lineno < divs[0].lineno and carrier == div_t and size_ok and numer_ok
    col.check(ok, f"{ts.fq}::digit extraction", "point = carrier % size, then carrier //= size, with the same size",
              "the digit of a sampled input is not `carrier % size` taken BEFORE `carrier //= size` with the size of that input: the decoded points are not the coordinates of the flat index",
              ts.loc(lp))
    # (c) the decoded point is a Tensor over sample+batch inputs with dtype = size
    pts = [c for c in ast.walk(lp) if isinstance(c, ast.Call) and (refs.resolve(c.func) or "") == "funsor.tensor.Tensor" and len(c.args) >= 3]
    okp = False
    if pts and mods:
        c = pts[0]
        sb = norm(c.args[1])
        sb_defs = defs.get(sb, [])
        starts_s = any("copy" in norm(st.value) or "OrderedDict" in norm(st.value) for st in sb_defs)
        upd_b = any(isinstance(u, ast.Call) and isinstance(u.func, ast.Attribute) and u.func.attr == "update" and norm(u.func.value) == sb and u.args and norm(u.args[0]) == B
                    for u in walk_no_nested(ts.node))
        digit = any(y is mods[0] for y in ast.walk(c.args[0]))
        if not digit and isinstance(c.args[0], ast.Name):
            digit = any(isinstance(st, ast.Assign) and len(st.targets) == 1 and norm(st.targets[0]) == c.args[0].id and any(y is mods[0] for y in ast.walk(st.value)) for st in ast.walk(lp))
        okp = digit and norm(c.args[2]) == norm(mods[0].right) and starts_s and upd_b
    col.check(okp, f"{ts.fq}::decoded point", "Tensor(carrier % size, <sample inputs + batch inputs>, size)",
              "the decoded point is not a Tensor of the digit over the sample and batch inputs with the size of its input as dtype", ts.loc(pts[0]) if pts else ts.loc(lp))
    # (d) the normaliser: logsumexp over the last axis of the flattened logits, declared over the batch inputs
    flat = [nm for nm, ds in defs.items() if any(isinstance(st.value, ast.Call) and isinstance(st.value.func, ast.Attribute) and st.value.func.attr == "reshape"
                                                 and st.value.args and "-1" in norm(st.value.args[0]) for st in ds)]
    norms = [c for c in walk_no_nested(ts.node) if isinstance(c, ast.Call) and (refs.resolve(c.func) or "") == "funsor.tensor.Tensor" and len(c.args) >= 2 and norm(c.args[1]) == B]
    okn = bool(norms) and bool(flat)
    for c in norms:
        lse = [x for x in ast.walk(c.args[0]) if isinstance(x, ast.Call) and norm(x.func).endswith("logsumexp")]
        okn = okn and len(lse) == 1 and len(lse[0].args) == 2 and norm(lse[0].args[0]) in flat and norm(lse[0].args[1]) == "-1"
    col.check(okn, f"{ts.fq}::normaliser", f"Tensor(logsumexp(<flattened logits>, -1), {B})",
              "the term that carries the total mass is not the logsumexp of the flattened logits over their last axis, declared over the batch inputs: the mass of the sample differs "
              "from the mass of the tensor for some batch element", ts.loc(norms[0]) if norms else ts.loc())

    # ---------------------------------------------------------------- R14.6
    # ---------------------------------------------------------------- R14.7 the stabilising maximum is taken per row, along the normalised axis
    col.rule("R14.7", "the maximum subtracted before exp() is taken along the axis the probabilities are normalised over (per batch row)", floor=1)
    n7 = 0
    for ex in ast.walk(ts.node):
        if not (isinstance(ex, ast.Call) and norm(ex.func).rsplit(".", 1)[-1] == "exp" and len(ex.args) == 1 and isinstance(ex.args[0], ast.BinOp) and isinstance(ex.args[0].op, ast.Sub)):
            continue
        L, M = ex.args[0].left, ex.args[0].right
        if isinstance(M, ast.Name):
            dfs = [st.value for st in ast.walk(ts.node) if isinstance(st, ast.Assign) and len(st.targets) == 1 and norm(st.targets[0]) == M.id]
            M = dfs[0] if len(dfs) == 1 else M
        # the normalising sum: a division by sum(<probs>, axis, keepdims=True) in the same function
        sums = [c_ for d_ in ast.walk(ts.node) if isinstance(d_, ast.BinOp) and isinstance(d_.op, ast.Div) for c_ in [d_.right]
                if isinstance(c_, ast.Call) and norm(c_.func).rsplit(".", 1)[-1] == "sum" and len(c_.args) >= 1]
        if not sums:
            continue
        n7 += 1

        def axis_of(c_):
            ax = next((k.value for k in c_.keywords if k.arg in ("axis", "dim")), c_.args[1] if len(c_.args) >= 2 else None)
            kd = next((k.value for k in c_.keywords if k.arg in ("keepdims", "keepdim")), c_.args[2] if len(c_.args) >= 3 else None)
            return (norm(ax) if ax is not None else None), (norm(kd) if kd is not None else None)
        s_ax, _ = axis_of(sums[0])
        construct = f"{ts.fq}::exp({norm(L)} - max)"
        if isinstance(M, ast.Call) and norm(M.func).rsplit(".", 1)[-1] in ("amax", "max") and M.args and norm(M.args[0]) == norm(L):
            m_ax, m_kd = axis_of(M)
            if m_ax is None:
                col.violation(construct, f"`{norm(M)}` is the maximum of the WHOLE array, while the probabilities are normalised per row (sum over axis {s_ax}): a batch row whose logits lie "
                              "more than ~745 below the global maximum underflows to all zeros, 0/0 = nan, and the draw for that row is always index 0 - possibly a point of mass -inf", ts.loc(ex))
            elif m_ax == s_ax and m_kd == "True":
                col.ok(construct, f"max along axis {m_ax} (keepdims), the axis of the normalising sum", ts.loc(ex))
            elif m_ax != s_ax:
                col.violation(construct, f"the maximum is taken along axis {m_ax} but the probabilities are normalised along axis {s_ax}", ts.loc(ex))
            else:
                col.unresolved(construct, f"`{norm(M)}`: keepdims not recognised", ts.loc(ex))
        else:
            col.unresolved(construct, f"the subtracted term `{norm(M)[:50]}` is not a maximum of `{norm(L)}`", ts.loc(ex))
    if n7 == 0:
        col.unresolved(f"{ts.fq}::stabilised softmax", "no exp(logits - max) / sum(...) found", ts.loc())
    # ---------------------------------------------------------------- R14.11 mass balance of the mixture branch of Contraction._sample
    col.rule("R14.11", "what Contraction._sample subtracts from the terms of the result (the Gaussian's normaliser) was added to the weights that are sampled", floor=1)
    cs = require_func(prog, "funsor.cnf::Contraction._sample")
    n11 = 0
    for blk_owner in ast.walk(cs.node):
        if not isinstance(blk_owner, ast.If):
            continue
        for blk in (blk_owner.body, blk_owner.orelse):
            # appended negations: L.append(-E)
            negs = [c.args[0].operand for st in blk for c in ast.walk(st) if isinstance(st, ast.Expr) and isinstance(c, ast.Call) and isinstance(c.func, ast.Attribute) and c.func.attr == "append"
                    and c.args and isinstance(c.args[0], ast.UnaryOp) and isinstance(c.args[0].op, ast.USub)]
            if not negs:
                continue
            samples = [c for st in blk for c in ast.walk(st) if isinstance(st, ast.Expr) and isinstance(c, ast.Call) and isinstance(c.func, ast.Attribute) and c.func.attr == "_sample"]
            for E in negs:
                for sc in samples:
                    n11 += 1
                    recv = sc.func.value
                    construct = f"{cs.fq}::{norm(sc)[:40]} / -{norm(E)}"
                    dfn = recv
                    if isinstance(recv, ast.Name):
                        ds = [st.value for st in blk if isinstance(st, ast.Assign) and len(st.targets) == 1 and norm(st.targets[0]) == recv.id]
                        dfn = ds[-1] if ds else None
                        unpacked = [st for st in blk if isinstance(st, ast.Assign) and isinstance(st.targets[0], (ast.Tuple, ast.List))
                                    and any(isinstance(t, ast.Name) and t.id == recv.id for t in st.targets[0].elts)]
                        if dfn is None and unpacked and not any(norm(E) in norm(y) for st in unpacked for y in ast.walk(st.value) if isinstance(y, ast.expr)):
                            col.violation(construct, f"`-{norm(E)}` is appended to the terms of the result, but `{recv.id}` - one of the raw terms, as unpacked by `{norm(unpacked[0])[:40]}` - is "
                                          f"what is sampled, without `+ {norm(E)}`: the components are drawn with the wrong probabilities and the total mass of the sample differs from the "
                                          "mixture's mass by the Gaussian's normaliser", cs.loc(sc))
                            continue
                    if dfn is None:
                        col.unresolved(construct, f"definition of `{norm(recv)}` not found in the branch", cs.loc(sc))
                        continue
                    # E occurs as a summand of the definition
                    def summands(e):
                        if isinstance(e, ast.BinOp) and isinstance(e.op, ast.Add):
                            return summands(e.left) + summands(e.right)
                        return [norm(e)]
                    if norm(E) in summands(dfn):
                        col.ok(construct, f"`{norm(recv)}` = {norm(dfn)[:50]} carries the subtracted term", cs.loc(sc))
                    elif isinstance(dfn, (ast.Name, ast.BinOp, ast.Attribute)) and not any(norm(E) in norm(y) for y in ast.walk(dfn) if isinstance(y, ast.expr)):
                        col.violation(construct, f"`-{norm(E)}` is appended to the terms of the result, but the weights that are sampled are `{norm(dfn)[:50]}`, without `+ {norm(E)}`: the "
                                      "components are drawn with the wrong probabilities and the total mass of the sample differs from the mixture's mass by the Gaussian's normaliser", cs.loc(sc))
                    else:
                        col.unresolved(construct, f"`{norm(dfn)[:50]}` not a plain sum", cs.loc(sc))
    if n11 == 0:
        col.unresolved(f"{cs.fq}::mixture branch", "no branch that appends a negated normaliser and samples was found", cs.loc())
    # ---------------------------------------------------------------- R14.12 (= C13 R13.13) the remaining Gaussian is ADDED to the normaliser term
    col.rule("R14.12", "_marginalize_after_split adds the remaining Gaussian to the normaliser of the integrated block in both arms (shared with C13 R13.13)", floor=2)
    from . import c13
    c13._accumulator_kept(prog, col, refs)
    # ---------------------------------------------------------------- R14.13 importance weight of a Monte-Carlo sample
    col.rule("R14.13", "monte_carlo_approximate returns sample + model - guide", floor=1)
    mc = require_func(prog, "funsor.montecarlo::monte_carlo_approximate")
    if len(mc.positional) >= 4:
        model_p, guide_p = mc.positional[2], mc.positional[3]
        samp = next((norm(st.targets[0]) for st in walk_no_nested(mc.node) if isinstance(st, ast.Assign) and isinstance(st.value, ast.Call) and isinstance(st.value.func, ast.Attribute)
                     and st.value.func.attr in ("sample", "_sample") and norm(st.value.func.value) == guide_p), None)

        def lin(e, sign=1, acc=None):
            acc = {} if acc is None else acc
            if isinstance(e, ast.BinOp) and isinstance(e.op, (ast.Add, ast.Sub)):
                lin(e.left, sign, acc)
                lin(e.right, sign if isinstance(e.op, ast.Add) else -sign, acc)
            elif isinstance(e, ast.UnaryOp) and isinstance(e.op, ast.USub):
                lin(e.operand, -sign, acc)
            elif isinstance(e, ast.Name):
                acc[e.id] = acc.get(e.id, 0) + sign
            else:
                acc["?"] = 1
            return acc
        defs_ = {norm(st.targets[0]): st.value for st in walk_no_nested(mc.node) if isinstance(st, ast.Assign) and len(st.targets) == 1 and isinstance(st.targets[0], ast.Name)}
        for r in walk_no_nested(mc.node):
            if not (isinstance(r, ast.Return) and r.value is not None):
                continue
            v = r.value
            if isinstance(v, ast.Name) and v.id in defs_ and v.id not in (model_p, guide_p):
                v = defs_[v.id]
            if isinstance(v, ast.Name) and v.id == model_p:
                continue  # "cannot progress": the model itself
            acc = lin(v)
            construct = f"{mc.fq}::return {norm(v)[:40]}"
            if samp is None or "?" in acc:
                col.unresolved(construct, "not a signed sum of the sample, the model and the guide", mc.loc(r))
            else:
                want = {samp: 1, model_p: 1, guide_p: -1}
                col.check(acc == want, construct, f"{samp} + {model_p} - {guide_p}",
                          f"the result is {' '.join(('+' if c > 0 else '-') + k for k, c in acc.items())}: the Delta drawn from the guide carries the weight model - guide at the drawn point "
                          f"(importance weight); with the roles swapped the mass of the approximation is off by exp(2 (guide - model))", mc.loc(r))
    col.rule("R14.6", "a function that discards the shift returned by _compress_rank does not compute a normaliser from the compressed factors", floor=1)
    n6 = 0
    for f in prog.functions_in(prog.modules["funsor.gaussian"]):
        if isinstance(f.node, ast.Lambda):
            continue
        for st in ast.walk(f.node):
            if not (isinstance(st, ast.Assign) and len(st.targets) == 1 and isinstance(st.targets[0], ast.Tuple) and len(st.targets[0].elts) == 3 and isinstance(st.value, ast.Call)
                    and norm(st.value.func).endswith("_compress_rank")):
                continue
            n6 += 1
            a_, b_, c_ = (norm(e) for e in st.targets[0].elts)
            used = any(isinstance(y, ast.Name) and y.id == c_ and isinstance(y.ctx, ast.Load) for y in ast.walk(f.node)) and c_ != "_"
            if used:
                col.ok(f"{f.fq}::{norm(st)[:60]}", "the compression shift is kept and used", f.loc(st), nontrivial=False)
                continue
            # derived names of the compressed factors (after this statement)
            derived = {a_, b_}
            for _ in range(3):
                for d in ast.walk(f.node):
                    if isinstance(d, ast.Assign) and d.lineno > st.lineno and any(isinstance(y, ast.Name) and y.id in derived for y in ast.walk(d.value)):
                        derived |= {y.id for t in d.targets for y in ast.walk(t) if isinstance(y, ast.Name)}
            logdets = [c for c in ast.walk(f.node) if isinstance(c, ast.Call) and norm(c.func).endswith("_log_det_tri") and c.lineno > st.lineno
                       and any(isinstance(y, ast.Name) and y.id in derived for y in ast.walk(c))]
            col.check(not logdets, f"{f.fq}::{norm(st)[:60]}", "the compressed factors are used for the draw only; the mass comes from elsewhere (self.log_normalizer)",
                      f"the shift returned by _compress_rank is discarded, yet `{norm(logdets[0])[:40] if logdets else ''}` computes a log-normaliser from the compressed factor: the "
                      "quadratic form was shifted by that constant during compression, so for a wide (rank > dim) Gaussian the mass of the sample differs from the Gaussian's",
                      f.loc(logdets[0]) if logdets else f.loc(st))
    col.cur.analysed["discarded_compression_shifts"] = n6

    # ---------------------------------------------------------------- R14.14 every evaluated term of a Delta counts
    col.rule("R14.14", "in Delta.eager_subs / eager_reduce nothing computed per term is carried out of the loop over the terms by plain re-assignment (only the last term would count)", floor=1)
    n14 = 0
    for fq_ in ("funsor.delta::Delta.eager_subs", "funsor.delta::Delta.eager_reduce"):
        f = prog.funcs.get(fq_)
        if f is None:
            if fq_.endswith("eager_subs"):
                raise AnalysisError(f"anchor {fq_} not found")
            continue
        for lp in walk_no_nested(f.node):
            if not (isinstance(lp, ast.For) and "terms" in norm(lp.iter)):
                continue
            n14 += 1
            inside = {id(y) for y in ast.walk(lp)}
            loop_targets = {y.id for y in ast.walk(lp.target) if isinstance(y, ast.Name)}
            assigned = {}
            for st in ast.walk(lp):
                if isinstance(st, ast.Assign) and len(st.targets) == 1 and isinstance(st.targets[0], ast.Name):
                    nm = st.targets[0].id
                    if not any(isinstance(y, ast.Name) and y.id == nm for y in ast.walk(st.value)):
                        assigned.setdefault(nm, st)
            end = getattr(lp, "end_lineno", lp.lineno)
            after = {y.id for y in ast.walk(f.node) if isinstance(y, ast.Name) and isinstance(y.ctx, ast.Load) and id(y) not in inside and y.lineno > end}
            # names that are (re)bound after the loop before being read there are not carried
            rebound = {t.id for st in walk_no_nested(f.node) if isinstance(st, ast.Assign) and st.lineno > end and id(st) not in inside for t in st.targets if isinstance(t, ast.Name)}
            # ... and only what depends on the term at hand (the loop targets, directly or through names assigned in the loop) is a per-term result
            dep = set(loop_targets)
            for _ in range(4):
                for st in ast.walk(lp):
                    if isinstance(st, ast.Assign) and any(isinstance(y, ast.Name) and y.id in dep for y in ast.walk(st.value)):
                        dep |= {y.id for t in st.targets for y in ast.walk(t) if isinstance(y, ast.Name)}
            carried = sorted(nm for nm in assigned if nm in after and nm not in loop_targets and nm not in rebound and nm in dep)
            col.check(not carried, f"{f.fq}::for … in {norm(lp.iter)[:30]}", "per-term results are appended / accumulated, never overwritten",
                      f"`{carried[0] if carried else ''}` is re-assigned in every round of the loop over the terms and read after the loop: only the contribution of the last "
                      "evaluated term survives, so a Delta with several terms evaluated at several points returns one term's log-density (and 0 mass mismatches of the others are lost)",
                      f.loc(assigned[carried[0]]) if carried else f.loc(lp))
    col.cur.analysed["loops_over_delta_terms"] = n14

    # ---------------------------------------------------------------- R14.5
    col.rule("R14.5", "nested _sample calls receive the sample inputs unchanged and a key derived from the one received", floor=4)
    n5 = 0
    for f in prog.funcs.values():
        if f.name != "_sample" or f.cls is None or isinstance(f.node, ast.Lambda) or len(f.positional) < 4:
            continue
        sinp_, key_ = f.positional[2], f.positional[3]
        derived = {key_}
        for _ in range(3):
            for st in ast.walk(f.node):
                if isinstance(st, ast.Assign) and any(isinstance(y, ast.Name) and y.id in derived for y in ast.walk(st.value)):
                    derived |= {y.id for t in st.targets for y in ast.walk(t) if isinstance(y, ast.Name)}
                if isinstance(st, ast.comprehension) and any(isinstance(y, ast.Name) and y.id in derived for y in ast.walk(st.iter)):
                    derived |= {y.id for y in ast.walk(st.target) if isinstance(y, ast.Name)}
        for c in ast.walk(f.node):
            if isinstance(c, ast.Call) and isinstance(c.func, ast.Attribute) and c.func.attr == "_sample" and len(c.args) >= 3:
                n5 += 1
                okk = norm(c.args[1]) == sinp_ and any(isinstance(y, ast.Name) and y.id in derived for y in ast.walk(c.args[2]))
                col.check(okk, f"{f.fq}::{norm(c)[:60]}", "passes its sample inputs and a key derived from its own rng_key",
                          f"`{norm(c)[:60]}` does not hand on `{sinp_}` and a key derived from `{key_}`: the nested draw uses other sample dims, or a random state that does not depend on "
                          "the one the caller supplied (the sample is then not a function of the random state)", f.loc(c))
    col.cur.analysed["nested_sample_calls"] = n5
    return col
