"""C15 - op tables are truthful; scalar/array registrations of one op agree (table clause + mirror/sibling clauses)."""
from __future__ import annotations

import ast
import copy
from typing import Dict, List, Optional

from .. import axioms
from ..catalogue import Catalogue, OpInfo
from ..model import AnalysisError, Program, norm
from ..report import Collector
from .common import Refs, const_value, func_label, walk_no_nested

T = "funsor.ops.op."
TABLES = ["UNITS", "DISTRIBUTIVE_OPS", "BINARY_INVERSES", "SAFE_BINARY_INVERSES", "UNARY_INVERSES", "PRODUCT_TO_POWER"]

EXPLANATION = (
    "Every entry of the published algebraic tables (UNITS, DISTRIBUTIVE_OPS, BINARY_INVERSES, SAFE_BINARY_INVERSES, "
    "UNARY_INVERSES, PRODUCT_TO_POWER) and of the tables derived from them (REDUCE_OP_TO_NUMERIC, einsum BACKEND_OPS / "
    "BACKEND_TO_*_BACKEND) is read from the source wherever it is written (T[k] = v, T.add((a, b)), dict literals), each op is "
    "resolved through the op catalogue to an abstract operation by its default implementation (operator.*, builtins, math.*, "
    "wrapper bodies, parent op, formula shape), and the entry is compared with the mathematics in funsorlint/axioms.py. "
    "Sibling clauses: registrations of one commutative op for (scalar, array) and (array, scalar) must be mirror images; an "
    "array-library function registered as the implementation of an op must be that op's counterpart. The finite set of table "
    "entries and registrations is enumerated completely."
    ' Added since: R15.8-R15.10 abstract interpretation over the IEEE special-value domain (funsorlint/specval.py): every implementation of every LOGADDEXP-identified op, logsumexp and the log-einsum kernel is NaN-free on {-inf, finite} and exact at -inf; every op SAFE_BINARY_INVERSES declares, and reciprocal, is NaN-free on its domain (default implementations analysed for the argument kinds no registration covers); scalar and array implementations agree at the special values; array kernels do not clamp with the float64 constant.'
)
ASSUMPTIONS = [
    "funsorlint/axioms.py states the mathematics correctly (neutral elements, distributive pairs with their carriers, inverses, powers, folds)",
    "operator.*, builtins and math.* functions compute what their documentation says",
    "numerical claims of C15 (exact limits at -inf/overflow, NaN-freeness, scalar/0-d/array value agreement) are NOT decided here",
]
RULE_TEXT = "one obligation per table entry, per table consumer, per mirrored registration pair and per library function registered for an op"


def abstract_of_expr(cat: Catalogue, mod, expr) -> Optional[str]:
    op = cat.resolve_op(mod, expr)
    if op is None:
        return None
    return axioms.identify(cat, op)


def run(prog: Program, col: Collector, tier: str, refs: Optional[Refs] = None, cat: Optional[Catalogue] = None):
    refs = refs or Refs(prog)
    cat = cat or Catalogue(prog, refs)
    for t in TABLES:
        lk = prog.lookup(T + t)
        if lk is None:
            raise AnalysisError(f"anchor table {T + t} not found")

    def ident(mod, expr):
        op = cat.resolve_op(mod, expr)
        if op is None:
            return None, None
        return op, axioms.identify(cat, op)

    # ---------------------------------------------------------------- R15.1
    col.rule("R15.1", "UNITS[op] is the neutral element of op", floor=6)
    for e in cat.table_entries(T + "UNITS"):
        construct = f"UNITS[{norm(e.key)}]"
        if e.value is None:
            col.unresolved(construct, f"opaque write to UNITS: {norm(e.node)}", e.loc)
            continue
        op, ab = ident(e.module, e.key)
        val = const_value(e.value)
        if ab is None or val is NotImplemented:
            col.unresolved(construct, f"cannot resolve op or constant ({norm(e.key)} -> {ab}, {norm(e.value)})", e.loc)
            continue
        m = axioms.neutral_matches(ab, val)
        if m is None:
            col.unresolved(construct, f"no neutral element known for {ab}", e.loc)
        else:
            col.check(m, construct, f"{norm(e.value)} is neutral for {ab}",
                      f"UNITS[{norm(e.key)}] = {norm(e.value)} but the neutral element of {ab} is {axioms.NEUTRAL[ab][1]!r}: rewrites that drop or seed with this 'unit' change values", e.loc)

    # ---------------------------------------------------------------- R15.2
    col.rule("R15.2", "every declared (sum, prod) pair distributes", floor=6)
    for e in cat.table_entries(T + "DISTRIBUTIVE_OPS"):
        construct = f"DISTRIBUTIVE_OPS.add({norm(e.key)})"
        if not (isinstance(e.key, ast.Tuple) and len(e.key.elts) == 2):
            col.unresolved(construct, "entry is not a literal pair", e.loc)
            continue
        (_, a), (_, m) = ident(e.module, e.key.elts[0]), ident(e.module, e.key.elts[1])
        if a is None or m is None:
            col.unresolved(construct, f"cannot resolve ops ({a}, {m})", e.loc)
            continue
        d = axioms.distributive(a, m)
        if d is None:
            col.unresolved(construct, f"pair ({a}, {m}) mixes carriers or is unknown to the oracle", e.loc)
        else:
            col.check(d[0], construct, f"{m} distributes over {a} on {d[1]}",
                      f"({a}, {m}) is declared distributive but {m} does not distribute over {a}: a {m} (b {a} c) != (a {m} b) {a} (a {m} c)", e.loc)

    # ---------------------------------------------------------------- R15.3
    col.rule("R15.3", "declared inverses and powers agree with the op", floor=8)
    for table, oracle, what in (("BINARY_INVERSES", axioms.BINARY_INVERSE, "binary inverse"),
                                ("SAFE_BINARY_INVERSES", axioms.BINARY_INVERSE, "safe binary inverse"),
                                ("UNARY_INVERSES", axioms.UNARY_INVERSE, "unary inverse"),
                                ("PRODUCT_TO_POWER", axioms.POWER, "n-fold power")):
        for e in cat.table_entries(T + table):
            construct = f"{table}[{norm(e.key)}]"
            if e.value is None:
                col.unresolved(construct, f"opaque write: {norm(e.node)}", e.loc)
                continue
            (kop, k), (vop, v) = ident(e.module, e.key), ident(e.module, e.value)
            if k is None or v is None:
                col.unresolved(construct, f"cannot resolve ops ({k}, {v})", e.loc)
                continue
            want = oracle.get(k)
            if want is None:
                col.violation(construct, f"{k} has no {what} but the table declares {v}", e.loc)
                continue
            ok = v == want
            if ok and table == "SAFE_BINARY_INVERSES":
                # the safe variant must be a *subclass op* of the exact inverse (so rules registered for the exact op still match)
                exact = [x for x in cat.table_entries(T + "BINARY_INVERSES") if cat.resolve_op(x.module, x.key) is kop]
                if exact and vop is not None and exact[0].value is not None:
                    eop = cat.resolve_op(exact[0].module, exact[0].value)
                    if eop is not None and not (vop.fq == eop.fq or eop.fq in cat.op_ancestors(vop.fq)):
                        col.violation(construct, f"{vop.var} is not derived from the exact inverse {eop.var}", e.loc)
                        continue
            col.check(ok, construct, f"{what} of {k} is {want}", f"{table}[{norm(e.key)}] = {norm(e.value)} ({v}) but the {what} of {k} is {want}", e.loc)

    # ---------------------------------------------------------------- R15.4 derived tables
    col.rule("R15.4", "derived tables: array folds and einsum backends implement the semiring they are filed under", floor=14)
    for e in cat.table_entries("funsor.tensor.REDUCE_OP_TO_NUMERIC"):
        construct = f"REDUCE_OP_TO_NUMERIC[{norm(e.key)}]"
        (_, k), (_, v) = ident(e.module, e.key), ident(e.module, e.value) if e.value is not None else (None, None)
        if k is None or v is None:
            col.unresolved(construct, f"cannot resolve ops ({k}, {v})", e.loc)
            continue
        want = axioms.FOLD.get(k)
        col.check(v == want, construct, f"fold of {k} is {want}", f"{norm(e.key)} is reduced with {norm(e.value)} ({v}); the fold of {k} over an axis is {want}", e.loc)
    backend_ops: Dict[str, tuple] = {}
    for e in cat.table_entries("funsor.einsum.BACKEND_OPS") + cat.table_entries("funsor.einsum.BACKEND_ADJOINT_OPS"):
        name = const_value(e.key)
        construct = f"{e.table.rsplit('.', 1)[-1]}[{norm(e.key)}]"
        if not isinstance(name, str) or not isinstance(e.value, ast.Tuple) or len(e.value.elts) != 2:
            col.unresolved(construct, "entry not of the form 'backend': (sum_op, prod_op)", e.loc)
            continue
        (_, a), (_, m) = ident(e.module, e.value.elts[0]), ident(e.module, e.value.elts[1])
        if a is None or m is None:
            col.unresolved(construct, "cannot resolve ops", e.loc)
            continue
        backend_ops[name] = (a, m)
        want = _backend_semiring(prog, refs, cat, name)
        if want is None:
            col.unresolved(construct, f"semiring implemented by backend {name!r} is unknown", e.loc)
        else:
            col.check((a, m) == want, construct, f"backend {name} implements ({want[0]}, {want[1]})",
                      f"backend {name!r} implements the ({want[0]}, {want[1]}) semiring but is filed under ({a}, {m})", e.loc)
        d = axioms.distributive(a, m)
        if d is not None and not d[0]:
            col.violation(construct + "::semiring", f"({a}, {m}) is not a semiring", e.loc)
    # BACKEND_TO_*_BACKEND tables: the backend selected for a semiring must implement that semiring
    for tname, want in (("funsor.cnf.BACKEND_TO_EINSUM_BACKEND", ("ADD", "MUL")), ("funsor.cnf.BACKEND_TO_LOGSUMEXP_BACKEND", ("LOGADDEXP", "ADD")),
                        ("funsor.cnf.BACKEND_TO_MAP_BACKEND", ("MAX", "ADD"))):
        for e in cat.table_entries(tname):
            name = const_value(e.value) if e.value is not None else NotImplemented
            construct = f"{tname.rsplit('.', 1)[-1]}[{norm(e.key)}]"
            if not isinstance(name, str):
                col.unresolved(construct, "value is not a string literal", e.loc)
                continue
            got = _backend_semiring(prog, refs, cat, name)
            if got is None:
                col.unresolved(construct, f"semiring of backend {name!r} unknown", e.loc)
            else:
                col.check(got == want, construct, f"{name} implements {want}", f"{name!r} implements {got}, but this table selects backends for {want}", e.loc)

    # ---------------------------------------------------------------- R15.5 consumers
    col.rule("R15.5", "consumers of the tables (inventory: every read site is paired with an op expression)", floor=8)
    n_reads = 0
    for t in TABLES:
        for mod, node in cat.table_reads(T + t):
            n_reads += 1
            col.ok(f"{func_label(prog, mod, node)}::{norm(node)}", f"read of {t}", mod.loc(node), nontrivial=False)
    col.cur.analysed["table_reads"] = n_reads

    # ---------------------------------------------------------------- R15.6 mirror clause
    col.rule("R15.6", "mixed scalar/array registrations of a commutative op are mirror images", floor=6)
    _mirror(prog, col, refs, cat)

    # ---------------------------------------------------------------- R15.7 sibling implementations
    col.rule("R15.7", "an array-library function registered for an op is that op's counterpart", floor=25)
    _siblings(prog, col, refs, cat)
    from . import numerics
    numerics.run(prog, col, refs, cat)
    numerics.run_agreement(prog, col, refs, cat)

    # ---------------------------------------------------------------- R15.11 Python bodies of ops whose identity comes from their name
    # ---------------------------------------------------------------- R15.12 a parameter that holds a bound is not called
    col.rule("R15.12", "an op implementation does not call one of its own value parameters (a parameter shadowing the function it meant)", floor=40)
    n_impl = 0
    impls = []
    for o in cat.ops.values():
        if isinstance(o.impl, ast.FunctionDef) and o.impl in prog.funcs_by_node:
            impls.append((o, prog.funcs_by_node[o.impl], "default implementation"))
    for r in cat.registrations:
        if r.registry in cat.ops and r.method == "register" and r.target is not None and not isinstance(r.target.node, ast.Lambda):
            impls.append((cat.ops[r.registry], r.target, "registered implementation"))
    seen_impl = set()
    for o, f, how in impls:
        if f.fq in seen_impl:
            continue
        seen_impl.add(f.fq)
        n_impl += 1
        a = f.node.args
        value_params = set()
        pos = a.posonlyargs + a.args
        for arg, d in zip(pos[len(pos) - len(a.defaults):], a.defaults):
            if isinstance(d, ast.Constant):
                value_params.add(arg.arg)
        for arg, d in zip(a.kwonlyargs, a.kw_defaults):
            if isinstance(d, ast.Constant):
                value_params.add(arg.arg)
        stores = {x.id for x in walk_no_nested(f.node) if isinstance(x, ast.Name) and isinstance(x.ctx, ast.Store)}
        called = [c for c in walk_no_nested(f.node) if isinstance(c, ast.Call) and isinstance(c.func, ast.Name) and c.func.id in value_params - stores]
        construct = f"{f.fq}::parameters are values"
        if called:
            c = called[0]
            col.violation(construct, f"`{norm(c)[:50]}` calls the parameter `{c.func.id}` of `{f.name}`, whose default is a constant (it holds a bound / an option, not a function): "
                          f"inside `{f.name}` the name no longer refers to the op or builtin of that name, so the {how} of `{o.var}` raises TypeError whenever it runs "
                          "(Python scalars are not served by the array registration)", f.loc(c))
        else:
            col.ok(construct, "no parameter with a constant default is called", f.loc(), nontrivial=False)
    col.cur.analysed["op_implementations"] = n_impl

    # ---------------------------------------------------------------- R15.14 mixed kernels keep the promoted type
    col.rule("R15.14", "a mixed scalar/array kernel does not cast its result back to the dtype of the array operand", floor=8)
    from .numerics import _kinds_of, BACKENDS
    n_mixed = 0
    for r in cat.registrations:
        f = r.target
        if f is None or r.registry not in cat.ops or r.method != "register" or isinstance(f.node, ast.Lambda) or r.module.name not in BACKENDS:
            continue
        kinds = _kinds_of(r.pattern)
        if not kinds or len(kinds) != 2 or kinds[0] == kinds[1]:
            continue
        n_mixed += 1
        params = f.positional[:2]
        casts = [c for c in ast.walk(f.node) if isinstance(c, ast.Call) and isinstance(c.func, ast.Attribute) and c.func.attr in ("astype", "to", "type")
                 and c.args and isinstance(c.args[0], ast.Attribute) and c.args[0].attr == "dtype" and isinstance(c.args[0].value, ast.Name) and c.args[0].value.id in params]
        col.check(not casts, f"{f.fq}::result type", "the result keeps the type the array library promotes to",
                  f"`{norm(casts[0])[:60]}` casts the result to the dtype of the array operand: with an integer or boolean array and a fractional or infinite Python scalar the scalar's "
                  f"contribution is truncated ({cat.ops[r.registry].var}(0.5, array([0, 2])) loses the 0.5), so the op no longer agrees with its scalar and all-array forms" if casts else "", f.loc())
    col.cur.analysed["mixed_kernels"] = n_mixed

    # ---------------------------------------------------------------- R15.15 the shift of logsumexp is taken along the reduced axis
    _logsumexp_axis(prog, col, refs, cat, "R15.15")

    # ---------------------------------------------------------------- R15.13 boolean ops are closed on Python bools
    col.rule("R15.13", "an op whose scalar default is a bitwise operator has a boolean implementation for Python bools when that operator leaves the booleans", floor=1)
    # external fact (Python data model): on bool operands operator.and_/or_/xor return bool, operator.invert returns int (~True == -2)
    LEAVES_BOOLEANS = {"operator.invert", "operator.inv", "operator.neg", "operator.pos"}
    for fq, o in sorted(cat.ops.items()):
        if o.parent_is_op or not o.impl_ext:
            continue
        ab = axioms.identify(cat, o)
        if ab not in ("INVERT", "AND", "OR", "XOR"):
            continue
        construct = f"{fq}::closed on bool"
        if o.impl_ext not in LEAVES_BOOLEANS:
            col.ok(construct, f"`{o.impl_ext}` maps bools to bools", o.module.loc(o.node), nontrivial=False)
            continue
        covers = [r for r in cat.registrations if r.registry == fq and r.method == "register"
                  and any("bool" in [norm(x) for x in (p.elts if isinstance(p, ast.Tuple) else [p])] for p in r.pattern)]
        col.check(bool(covers), construct, f"a registration for `bool` overrides `{o.impl_ext}`",
                  f"the scalar default of `{o.var}` is `{o.impl_ext}`, which on a Python bool is the integer bitwise operation (~True == -2), and no implementation is registered for "
                  "`bool`: on a boolean Number the op leaves {False, True} (and Bint[2]) while on a boolean array it is the logical operation", o.module.loc(o.node))

    from . import algebra
    algebra.r_commutative_default_symmetric(prog, col, refs, cat, "R15.11")
    for fq, why in sorted(axioms.UNVERIFIED.items()):
        o = cat.ops.get(fq)
        col.unresolved(f"{fq}::body", f"{why}; the op is taken to be what its name and the tables say, and its limit behaviour / scalar-array agreement are decided by R15.8 / R15.10",
                       o.module.loc(o.impl) if o is not None and o.impl is not None else "")
    return col


def _backend_semiring(prog: Program, refs: Refs, cat: Catalogue, name: str):
    if name in ("torch", "numpy", "jax.numpy"):
        return ("ADD", "MUL")  # einsum of these libraries is the sum-product contraction
    if name.startswith("pyro.ops.einsum.torch_"):
        kind = name.rsplit("_", 1)[-1]
        return {"log": ("LOGADDEXP", "ADD"), "marginal": ("LOGADDEXP", "ADD"), "sample": ("LOGADDEXP", "ADD"), "map": ("MAX", "ADD")}.get(kind)
    mod = prog.modules.get(name)
    if mod is None:
        return None
    f = prog.funcs.get(f"{name}::einsum")
    if f is None:
        return None
    calls = []
    for n in walk_no_nested(f.node):
        if isinstance(n, ast.Call):
            r = refs.resolve(n.func)
            calls.append((r, n))
    names = {r for r, _ in calls if r}
    # log-space: log(einsum(exp(operand - shift))) + shifts
    if "funsor.ops.array.einsum" in names and "funsor.ops.builtin.exp" in names and "funsor.ops.builtin.log" in names:
        for r, n in calls:
            if r == "funsor.ops.builtin.log" and n.args and isinstance(n.args[0], ast.Call) and refs.resolve(n.args[0].func) == "funsor.ops.array.einsum":
                return ("LOGADDEXP", "ADD")
        return None
    red = None
    if "funsor.ops.array.amax" in names:
        red = "MAX"
    elif "funsor.ops.array.amin" in names:
        red = "MIN"
    comb = None
    for r, n in calls:
        if r == "functools.reduce" and n.args:
            c = refs.resolve(n.args[0]) if isinstance(n.args[0], (ast.Name, ast.Attribute)) else None
            comb = axioms.EXT_TO_ABSTRACT.get(c or "")
            if comb is None and c in cat.ops:
                comb = axioms.identify(cat, cat.ops[c])
    if red and comb:
        return (red, comb)
    return None


class _Renamer(ast.NodeTransformer):
    def __init__(self, mapping):
        self.mapping = mapping

    def visit_Name(self, node):
        return ast.copy_location(ast.Name(id=self.mapping.get(node.id, node.id), ctx=node.ctx), node)


def _body_dump(fn: ast.FunctionDef, mapping) -> str:
    body = [copy.deepcopy(s) for s in fn.body if not (isinstance(s, ast.Expr) and isinstance(s.value, ast.Constant))]
    return "\n".join(ast.dump(_Renamer(mapping).visit(s)) for s in body)


def _pattern_kind(refs: Refs, mod, expr) -> str:
    """'scalar' | 'array' | 'other' for a registration pattern element."""
    elts = expr.elts if isinstance(expr, ast.Tuple) else [expr]
    kinds = set()
    for e in elts:
        r = refs.resolve(e) if isinstance(e, (ast.Name, ast.Attribute)) else None
        t = norm(e)
        if r in ("builtins.int", "builtins.float", "numbers.Number", "numbers.Real") or t in ("int", "float", "numbers.Number"):
            kinds.add("scalar")
        elif r and (r.endswith(".Tensor") or r.endswith(".ndarray") or r.endswith(".generic") or r.endswith(".array") or r.endswith("Array")
                    or r.endswith(".Tracer") or r in ("funsor.ops.array.array", "funsor.jax.ops.array")):
            kinds.add("array")
        elif t in ("array", "torch.Tensor"):
            kinds.add("array")
        else:
            kinds.add("other")
    return kinds.pop() if len(kinds) == 1 else "other"


def _mirror(prog: Program, col: Collector, refs: Refs, cat: Catalogue):
    by_op: Dict[tuple, List] = {}
    for r in cat.registrations:
        if r.method != "register" or r.registry not in cat.ops or len(r.pattern) != 2:
            continue
        op = cat.ops[r.registry]
        ab = axioms.identify(cat, op)
        if ab not in axioms.COMMUTATIVE:
            continue
        k1, k2 = _pattern_kind(refs, r.module, r.pattern[0]), _pattern_kind(refs, r.module, r.pattern[1])
        if {k1, k2} == {"scalar", "array"}:
            by_op.setdefault((op.fq, r.module.name), []).append((k1, k2, r))
    for (opfq, modname), regs in sorted(by_op.items()):
        sa = [r for k1, k2, r in regs if k1 == "scalar"]
        as_ = [r for k1, k2, r in regs if k1 == "array"]
        opname = cat.ops[opfq].var
        construct = f"{modname}::{opname}.register(scalar,array)/(array,scalar)"
        if not sa or not as_:
            col.violation(construct, f"commutative op {opname} is registered for only one order of (scalar, array) operands in {modname}", regs[0][2].loc)
            continue
        a, b = sa[0], as_[0]
        if a.target is None or b.target is None or not isinstance(a.target.node, ast.FunctionDef) or not isinstance(b.target.node, ast.FunctionDef):
            col.unresolved(construct, "registered implementations are not plain functions", a.loc)
            continue
        fa, fb = a.target, b.target
        pa, pb = fa.positional, fb.positional
        if len(pa) != 2 or len(pb) != 2:
            col.unresolved(construct, "implementations are not binary", a.loc)
            continue
        # (1) same body under parameter swap
        swap = {pb[0]: pa[1], pb[1]: pa[0]}
        if _body_dump(fa.node, {}) == _body_dump(fb.node, swap):
            col.ok(construct, f"{fb.qualname} is {fa.qualname} with operands swapped", a.loc)
            continue
        # (2) delegation with swapped arguments, either direction
        deleg = _delegates_swapped(fb, fa) or _delegates_swapped(fa, fb)
        if deleg:
            col.ok(construct, "one implementation delegates to the other with swapped operands", a.loc)
            continue
        col.violation(construct, f"{fa.qualname} (scalar, array) and {fb.qualname} (array, scalar) are not mirror images: a commutative op "
                      f"would give different answers for x {opname} y and y {opname} x", b.loc)


def _delegates_swapped(f, g) -> bool:
    body = [s for s in f.node.body if not (isinstance(s, ast.Expr) and isinstance(s.value, ast.Constant))]
    if len(body) != 1 or not isinstance(body[0], ast.Return) or not isinstance(body[0].value, ast.Call):
        return False
    c = body[0].value
    p = f.positional
    return (isinstance(c.func, ast.Name) and c.func.id == g.name and len(c.args) == 2 and not c.keywords
            and isinstance(c.args[0], ast.Name) and isinstance(c.args[1], ast.Name) and [c.args[0].id, c.args[1].id] == [p[1], p[0]])


def _siblings(prog: Program, col: Collector, refs: Refs, cat: Catalogue):
    red_names = axioms.family_names(axioms.REDUCTION_FAMILY)
    for r in cat.registrations:
        if r.method != "register" or r.registry not in cat.ops:
            continue
        op = cat.ops[r.registry]
        ab = axioms.identify(cat, op)
        if ab is None:
            continue
        want = axioms.ARRAY_COUNTERPART.get(ab)
        if want is None:
            continue
        construct = f"{r.module.name}::{op.var}.register({', '.join(norm(p) for p in r.pattern)})"
        if r.target is None and r.target_expr is not None and isinstance(r.target_expr, (ast.Name, ast.Attribute)):
            ext = refs.resolve(r.target_expr) or norm(r.target_expr)
            last = ext.rsplit(".", 1)[-1]
            col.check(last in want, construct, f"{ext} is the array counterpart of {ab}",
                      f"{ext} is registered as the implementation of {op.var} ({ab}); expected one of {sorted(want)}", r.loc)
        elif r.target is not None and ab in axioms.REDUCTION_FAMILY and isinstance(r.target.node, ast.FunctionDef):
            # inside the implementation, library calls from the reduction family must be this op's counterpart
            bad = []
            n_calls = 0
            for n in walk_no_nested(r.target.node):
                if isinstance(n, ast.Call) and isinstance(n.func, ast.Attribute):
                    rr = refs.resolve(n.func)
                    if rr and rr.split(".")[0] in ("numpy", "torch", "jax") and n.func.attr in red_names:
                        n_calls += 1
                        if n.func.attr not in want:
                            bad.append(rr)
            if n_calls:
                col.check(not bad, construct, f"implementation calls only {sorted(want)} from the reduction family",
                          f"the implementation of {op.var} ({ab}) calls {bad}: a different reduction", r.loc)
    # default implementations of reduction ops are checked by axioms.identify (they resolved to the right numpy function)


# ---------------------------------------------------------------------- R15.15
def _logsumexp_axis(prog: Program, col: Collector, refs: Refs, cat: Catalogue, rule: str):
    """logsumexp(x, axis) = m + log(sum(exp(x - m), axis)) is exact for ANY shift m that is constant along `axis`; it is numerically
    useful only with m = max(x, axis).  A shift taken over the whole array (axis forgotten) is still constant along the axis, but slices
    whose values lie far below the global maximum underflow to -inf.  Every reduction inside an implementation of logsumexp must
    therefore run along the function's own axis parameter."""
    col.rule(rule, "every reduction inside an implementation of logsumexp runs along the op's own axis", floor=1)
    n = 0
    impls = []
    for o in cat.ops.values():
        if axioms.identify(cat, o) == "LOGSUMEXP" and isinstance(o.impl, ast.FunctionDef) and o.impl in prog.funcs_by_node:
            impls.append(prog.funcs_by_node[o.impl])
            for r in cat.registrations:
                if r.registry == o.fq and r.method == "register" and r.target is not None and not isinstance(r.target.node, ast.Lambda):
                    impls.append(r.target)
    for f in impls:
        axis_params = [p for p in f.params if p in ("axis", "dim")]
        if not axis_params:
            continue
        ax = axis_params[0]
        for c in walk_no_nested(f.node):
            if not isinstance(c, ast.Call):
                continue
            fn = c.func.attr if isinstance(c.func, ast.Attribute) else (c.func.id if isinstance(c.func, ast.Name) else "")
            if fn not in ("amax", "max", "sum", "amin", "min", "logsumexp", "nansum"):
                continue
            if fn in ("max", "min") and len(c.args) >= 2 and not c.keywords and isinstance(c.func, ast.Name):
                continue  # binary max of two values
            n += 1
            uses = any(isinstance(x, ast.Name) and x.id == ax for a in list(c.args[1:]) + [k.value for k in c.keywords] for x in ast.walk(a))
            col.check(uses, f"{f.fq}::{norm(c)[:50]}", f"reduces along `{ax}`",
                      f"`{norm(c)[:60]}` does not use the `{ax}` parameter of `{f.name}`: the shift is the maximum of the WHOLE array, so a slice whose entries are more than ~700 below "
                      "the global maximum underflows to -inf although its own log-sum-exp is finite", f.loc(c))
    col.cur.analysed["logsumexp_reductions"] = n
