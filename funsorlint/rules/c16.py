"""C16 - pattern dispatch picks a rule deterministically (determinism, purity, duplicates, arity; not the order axioms)."""
from __future__ import annotations

import ast
import itertools
from typing import Dict, List, Optional, Set, Tuple

import networkx as nx

from ..catalogue import Catalogue, Registration
from ..cfg import CFG
from ..model import AnalysisError, Func, Program, norm
from ..report import Collector
from .common import Refs, func_label, is_super_call, require_func, walk_no_nested

EXPLANATION = (
    "Determinism clauses of pattern dispatch decided on the source. R16.1: in PartialDispatcher.partial_call the type tuple is computed "
    "from all arguments, the dispatch cache is read and written under that same tuple, and the returned rule flows only from the cache "
    "or from dispatch(*types); KeyedRegistry selects the per-class dispatcher by get_origin(key); interpretations call dispatch with the "
    "class and all arguments in order. R16.2: effect analysis of the call graph rooted at deep_issubclass/deep_type - no writes to module "
    "or class state, so lru_cache/dispatch caches cannot change an answer. R16.3: within one dispatcher no signature (after tuple-union "
    "expansion) is registered twice with different rule bodies. R16.4: every registered pattern can fire - its length agrees with the "
    "constructor fields of the term class (or the var-args packing of reflect) and with the rule's parameters. R16.5: reflect builds the "
    "specialised type from the types of all arguments. R16.6: state written on the dispatch path is invalidated by registration. R16.7: "
    "a precise type reported for a container is validated against (or widened for) every element. NOT decided: reflexivity, transitivity "
    "and instance agreement of the recursive subtype relation over all runtime types."
    ' Added since: R16.6 nothing on the registration path refills the dispatch cache.'
)
ASSUMPTIONS = [
    "multipledispatch.Dispatcher.dispatch is a function of the registered signatures and the type tuple; Dispatcher.add clears its _cache",
    "most-specific-match ordering of multipledispatch itself is trusted (external library)",
]
RULE_TEXT = "one obligation per dataflow clause of the dispatch functions, per function of the subtype-oracle call graph, per dispatcher, per registered pattern"

INTERP_REGISTRY_PREFIXES = ("funsor.interpretations.",)


def run(prog: Program, col: Collector, tier: str, refs: Optional[Refs] = None, cat: Optional[Catalogue] = None):
    refs = refs or Refs(prog)
    cat = cat or Catalogue(prog, refs)

    # ---------------------------------------------------------------- R16.1
    col.rule("R16.1", "the rule chosen is a function of the argument types only", floor=7)
    pc = require_func(prog, "funsor.registry::PartialDispatcher.partial_call")
    var = pc.node.args.vararg.arg if pc.node.args.vararg else None
    types_assign = [n for n in walk_no_nested(pc.node) if isinstance(n, ast.Assign) and len(n.targets) == 1 and isinstance(n.targets[0], ast.Name)
                    and any(isinstance(x, ast.Name) and x.id == var for x in ast.walk(n.value))]
    if var is None or len(types_assign) != 1:
        col.violation(f"{pc.fq}::types", "partial_call does not compute one type tuple from *args", pc.loc())
    else:
        ta = types_assign[0]
        tname = ta.targets[0].id
        v = ta.value
        # tuple(map(f, map(g, args)))  /  tuple(f(g(a)) for a in args): all of args, no slice/filter
        uses = [x for x in ast.walk(v) if isinstance(x, ast.Name) and x.id == var]
        sliced = any(isinstance(ta.module_parent if False else None, ast.Subscript) for _ in [0])
        bad_slice = any(isinstance(p, ast.Subscript) for x in uses for p in [pc.module.parent.get(x)])
        filt = any(isinstance(g, ast.comprehension) and g.ifs for g in ast.walk(v))
        uses_deep_type = any(refs.resolve(x) == "funsor.typing.deep_type" for x in ast.walk(v) if isinstance(x, (ast.Name, ast.Attribute)))
        col.check(len(uses) == 1 and not bad_slice and not filt and uses_deep_type, f"{pc.fq}::{norm(ta)}",
                  "the type tuple is deep_type of every argument, in order", f"the type tuple `{norm(v)}` does not cover all arguments by deep_type", pc.loc(ta))
        # cache read / write keyed by the same name
        cache_subs = [n for n in walk_no_nested(pc.node) if isinstance(n, ast.Subscript) and isinstance(n.value, ast.Attribute) and n.value.attr == "_cache"]
        keys_ok = bool(cache_subs) and all(isinstance(s.slice, ast.Name) and s.slice.id == tname for s in cache_subs)
        redefs = [n for n in walk_no_nested(pc.node) if isinstance(n, ast.Name) and n.id == tname and isinstance(n.ctx, ast.Store)]
        col.check(keys_ok and len(redefs) == 1, f"{pc.fq}::cache key", "the dispatch cache is read and written under the same type tuple",
                  "the dispatch cache is keyed by something other than the (single) type tuple: a later call may receive a rule cached for other types", pc.loc())
        # what is returned
        rets = [n for n in walk_no_nested(pc.node) if isinstance(n, ast.Return)]
        fname = rets[0].value.id if rets and isinstance(rets[0].value, ast.Name) else None
        srcs = [n for n in walk_no_nested(pc.node) if isinstance(n, ast.Assign) and any(isinstance(t, ast.Name) and t.id == fname for t in n.targets)]
        ok = bool(srcs) and fname is not None
        for s in srcs:
            val = s.value
            from_cache = isinstance(val, ast.Subscript) and val in cache_subs
            from_dispatch = (isinstance(val, ast.Call) and isinstance(val.func, ast.Attribute) and val.func.attr == "dispatch"
                             and len(val.args) == 1 and isinstance(val.args[0], ast.Starred) and norm(val.args[0].value) == tname)
            ok = ok and (from_cache or from_dispatch)
        col.check(ok and len(rets) == 1, f"{pc.fq}::result", "the returned rule comes from the cache entry of the types or from dispatch(*types)",
                  "the returned rule flows from something other than self._cache[types] / self.dispatch(*types)", pc.loc())
        # the value stored in the cache is the dispatched one
        stores = [s for s in cache_subs if isinstance(s.ctx, ast.Store)]
        for s in stores:
            st = pc.module.parent.get(s)
            col.check(isinstance(st, ast.Assign) and isinstance(st.value, ast.Name) and st.value.id == fname, f"{pc.fq}::{norm(st)}",
                      "the cache stores the rule that was dispatched for these types", "the cache stores a value other than the dispatched rule", pc.loc(st))
    kr_get = require_func(prog, "funsor.registry::KeyedRegistry.__getitem__")
    kr_disp = require_func(prog, "funsor.registry::KeyedRegistry.dispatch")
    kr_reg = require_func(prog, "funsor.registry::KeyedRegistry.register")
    # selection by get_origin(key)
    for f in (kr_get, kr_reg):
        keyp = f.positional[1]
        lookups = [n for n in walk_no_nested(f.node) if isinstance(n, (ast.Subscript, ast.Call)) and "registry" in norm(n) and isinstance(n, ast.Subscript)]
        lookups += [n for n in walk_no_nested(f.node) if isinstance(n, ast.Call) and isinstance(n.func, ast.Attribute) and n.func.attr == "get" and "registry" in norm(n.func.value)]
        good = True
        for l in lookups:
            k = l.slice if isinstance(l, ast.Subscript) else (l.args[0] if l.args else None)
            is_origin = isinstance(k, ast.Call) and refs.resolve(k.func) == "funsor.typing.get_origin" and norm(k.args[0]) == keyp
            is_name = isinstance(k, ast.Name) and any(isinstance(a, ast.Assign) and any(isinstance(t, ast.Name) and t.id == k.id for t in a.targets)
                                                      and isinstance(a.value, ast.Call) and refs.resolve(a.value.func) == "funsor.typing.get_origin"
                                                      for a in walk_no_nested(f.node))
            good = good and (is_origin or is_name)
        col.check(good and bool(lookups), f"{f.fq}::dispatcher selection", "the per-class dispatcher is selected by get_origin(key)",
                  "the per-class dispatcher is not selected by get_origin(key): parametrised and plain class keys would use different rule tables", f.loc())
    rets = [n for n in walk_no_nested(kr_disp.node) if isinstance(n, ast.Return)]
    ok = len(rets) == 1 and isinstance(rets[0].value, ast.Call) and isinstance(rets[0].value.func, ast.Attribute) and rets[0].value.func.attr == "partial_call" \
        and len(rets[0].value.args) == 1 and isinstance(rets[0].value.args[0], ast.Starred)
    col.check(ok, f"{kr_disp.fq}::forwards all args", "dispatch forwards all arguments to partial_call", "KeyedRegistry.dispatch does not forward all arguments to partial_call", kr_disp.loc())
    for fq, extra in (("funsor.interpretations::DispatchedInterpretation.interpret", 0), ("funsor.interpretations::StatefulInterpretation.interpret", 1)):
        f = require_func(prog, fq)
        rets = [n for n in walk_no_nested(f.node) if isinstance(n, ast.Return)]
        good = False
        if len(rets) == 1 and isinstance(rets[0].value, ast.Call) and isinstance(rets[0].value.func, ast.Call):
            outer, inner = rets[0].value, rets[0].value.func
            good = (isinstance(inner.func, ast.Attribute) and inner.func.attr == "dispatch" and len(inner.args) == 2
                    and norm(inner.args[0]) == f.positional[1] and isinstance(inner.args[1], ast.Starred)
                    and len(outer.args) == 1 + extra and isinstance(outer.args[-1], ast.Starred) and norm(outer.args[-1].value) == norm(inner.args[1].value))
        col.check(good, f"{f.fq}::dispatch(cls, *args)(*args)", "the rule is selected from the class and all arguments and applied to the same arguments",
                  "interpret does not select the rule by dispatch(cls, *args) and apply it to the same *args", f.loc())

    # ---------------------------------------------------------------- R16.2 purity
    col.rule("R16.2", "the subtype oracle and deep_type are pure functions", floor=10)
    _purity(prog, col, refs, cat)

    # ---------------------------------------------------------------- R16.3 duplicates
    col.rule("R16.3", "no signature is registered twice with different rules in one dispatcher", floor=150)
    _duplicates(prog, col, refs, cat)

    # ---------------------------------------------------------------- R16.4 arity
    col.rule("R16.4", "every registered pattern can fire (arity agrees with constructor and rule)", floor=120)
    _arity(prog, col, refs, cat)

    # ---------------------------------------------------------------- R16.5
    col.rule("R16.5", "the specialised term type is built from the types of all arguments", floor=2)
    rf = require_func(prog, "funsor.terms::reflect")
    argvar = rf.node.args.vararg.arg
    at = [n for n in walk_no_nested(rf.node) if isinstance(n, ast.Assign) and isinstance(n.value, ast.Call) and norm(n.value.func) == "tuple"
          and any(refs.resolve(x) == "funsor.typing.deep_type" for x in ast.walk(n.value) if isinstance(x, (ast.Name, ast.Attribute)))]
    ok = len(at) == 1 and any(isinstance(x, ast.Name) and x.id == argvar for x in ast.walk(at[0].value)) and not any(isinstance(x, ast.Subscript) for x in ast.walk(at[0].value))
    col.check(ok, f"{rf.fq}::arg_types", "arg_types = deep_type of every argument", "arg_types is not computed from all arguments with deep_type", rf.loc(at[0]) if at else rf.loc())
    if at:
        tn = at[0].targets[0].id
        spec = [n for n in walk_no_nested(rf.node) if isinstance(n, ast.Subscript) and isinstance(n.slice, ast.Name) and n.slice.id == tn]
        ok = len(spec) == 1 and isinstance(spec[0].value, ast.Call) and refs.resolve(spec[0].value.func) == "funsor.typing.get_origin" and norm(spec[0].value.args[0]) == rf.positional[0]
        ctor = [n for n in walk_no_nested(rf.node) if isinstance(n, ast.Call) and is_super_call(n, "__call__")]
        spec_name = None
        if spec:
            st = rf.module.parent.get(spec[0])
            if isinstance(st, ast.Assign) and isinstance(st.targets[0], ast.Name):
                spec_name = st.targets[0].id
        used = bool(ctor) and spec_name is not None and any(isinstance(a, ast.Name) and a.id == spec_name for a in ctor[0].func.value.args)
        col.check(ok and used, f"{rf.fq}::specialised class", "the instantiated class is get_origin(cls)[arg_types]",
                  "the class that is instantiated is not get_origin(cls)[arg_types]: the precise type patterns are matched against does not reflect the arguments", rf.loc())

    # ---------------------------------------------------------------- R16.6 cache invalidation
    col.rule("R16.6", "state written on the dispatch path is invalidated by registration", floor=2)
    _dispatch_state(prog, col, refs)

    # ---------------------------------------------------------------- R16.7 container precise types
    col.rule("R16.7", "a precise element type reported for a container is validated or widened for every element", floor=1)
    _container_types(prog, col, refs, cat)
    return col


def _purity(prog: Program, col: Collector, refs: Refs, cat: Catalogue):
    roots = ["funsor.typing::deep_issubclass", "funsor.typing::deep_type", "funsor.typing::deep_isinstance"]
    # call graph: resolved calls + registered subclasscheck / deep_type implementations + __subclasscheck__ methods
    g = nx.DiGraph()
    funcs = prog.funcs

    def callees(f: Func):
        out = set()
        for n in walk_no_nested(f.node):
            if isinstance(n, ast.Call):
                r = refs.resolve(n.func)
                if r:
                    lk = prog.lookup(r)
                    if lk and lk[0] == "func":
                        out.add(lk[1].fq)
        return out

    extra = set()
    for r in cat.registrations:
        if r.registry in ("funsor.typing.deep_type",) and r.target is not None:
            extra.add(r.target.fq)
    for f in funcs.values():
        if any(isinstance(d, ast.Call) and refs.resolve(d.func) == "funsor.typing.register_subclasscheck" for d in f.decorators):
            extra.add(f.fq)
        if f.name == "__subclasscheck__" and f.module.name in ("funsor.typing", "funsor.domains"):
            extra.add(f.fq)
    todo = [r for r in roots if r in funcs] + sorted(extra)
    if len(todo) < 8:
        raise AnalysisError(f"subtype oracle call graph too small ({todo})")
    seen = set()
    while todo:
        fq = todo.pop()
        if fq in seen or fq not in funcs:
            continue
        seen.add(fq)
        for c in callees(funcs[fq]):
            if c.startswith("funsor.typing::") or c.startswith("funsor.domains::"):
                todo.append(c)
    allowed_writer = "funsor.typing::register_subclasscheck._fn"
    for fq in sorted(seen):
        f = funcs[fq]
        effects = []
        for n in walk_no_nested(f.node):
            if isinstance(n, (ast.Global, ast.Nonlocal)):
                effects.append(f"{norm(n)}")
            if isinstance(n, (ast.Assign, ast.AugAssign, ast.Delete)):
                tgts = n.targets if isinstance(n, (ast.Assign, ast.Delete)) else [n.target]
                for t in tgts:
                    if isinstance(t, (ast.Attribute, ast.Subscript)):
                        base = t
                        while isinstance(base, (ast.Attribute, ast.Subscript)):
                            base = base.value
                        # writes into locals built in this function are not effects
                        local_fresh = isinstance(base, ast.Name) and any(
                            isinstance(a, ast.Assign) and any(isinstance(x, ast.Name) and x.id == base.id for x in a.targets)
                            and isinstance(a.value, (ast.Dict, ast.List, ast.Set, ast.Call, ast.ListComp, ast.DictComp)) for a in walk_no_nested(f.node))
                        if not local_fresh:
                            effects.append(norm(n))
            if isinstance(n, ast.Call) and isinstance(n.func, ast.Attribute) and n.func.attr in ("append", "add", "update", "pop", "setdefault", "clear", "remove", "extend", "insert"):
                base = n.func.value
                while isinstance(base, (ast.Attribute, ast.Subscript)):
                    base = base.value
                local_fresh = isinstance(base, ast.Name) and any(
                    isinstance(a, ast.Assign) and any(isinstance(x, ast.Name) and x.id == base.id for x in a.targets) for a in walk_no_nested(f.node))
                if not local_fresh:
                    effects.append(norm(n))
            if isinstance(n, ast.Call) and refs.resolve(n.func) in ("builtins.setattr", "builtins.delattr"):
                effects.append(norm(n))
        # GenericTypeMeta.__getitem__ etc. are interning (not on the oracle's graph unless called)
        col.check(not effects, f"{fq}::no side effects", "reads only; no write to module, class or argument state",
                  f"the subtype oracle writes state ({effects[:3]}): an answer can depend on earlier queries (and lru_cache/dispatch caches freeze it)", f.loc())
    # the registry the oracle reads is written only at import time by the decorator
    for mod, node in refs.to("funsor.typing._subclasscheck_registry"):
        p = mod.parent.get(node)
        if isinstance(p, ast.Subscript) and isinstance(p.ctx, (ast.Store, ast.Del)):
            where = func_label(prog, mod, node)
            col.check(where == allowed_writer, f"{where}::{norm(mod.parent.get(p))}", "written only by the register_subclasscheck decorator",
                      "the subclass-check registry is written outside the registration decorator", mod.loc(node))


def _expand(pattern: List[ast.expr]) -> List[Tuple[str, ...]]:
    alts = []
    for p in pattern:
        if isinstance(p, ast.Tuple):
            alts.append([norm(e) for e in p.elts])
        else:
            alts.append([norm(p)])
    return list(itertools.product(*alts))


def _body_dump(f: Func) -> str:
    return "\n".join(ast.dump(s) for s in f.body if not (isinstance(s, ast.Expr) and isinstance(s.value, ast.Constant)))


def _config(modname: str) -> str:
    if modname.startswith("funsor.torch") or modname.startswith("funsor.pyro") or modname == "funsor.minipyro" or modname == "funsor.compat.ops":
        return "torch"
    if modname.startswith("funsor.jax"):
        return "jax"
    return "core"


def _resolved_pattern(refs: Refs, pat: Tuple[str, ...], reg: Registration) -> Tuple[str, ...]:
    return pat


def _duplicates(prog: Program, col: Collector, refs: Refs, cat: Catalogue):
    groups: Dict[Tuple[str, str], List[Tuple[Tuple[str, ...], Registration]]] = {}
    for r in cat.registrations:
        if r.method != "register" or not r.pattern:
            continue
        if r.registry.startswith("?") or any(isinstance(p, ast.Starred) for p in r.pattern):
            continue  # patterns computed at run time (factories) are not comparable statically
        for sig in cat.expand_pattern(r):
            # resolve each element to a canonical name where possible so that aliases compare equal
            groups.setdefault((r.registry, _config(r.module.name)), []).append((sig, r))
    n_disp = 0
    for (registry, cfgname), items in sorted(groups.items()):
        by_sig: Dict[Tuple[str, ...], List[Registration]] = {}
        for sig, r in items:
            # canonicalise with resolution
            canon = tuple(_canon(refs, r, s) for s in sig)
            by_sig.setdefault(canon, []).append(r)
        n_disp += 1
        dups = {s: rs for s, rs in by_sig.items() if len({id(x.node) for x in rs}) > 1}
        bad = []
        for s, rs in dups.items():
            bodies = set()
            for x in rs:
                if x.target is not None:
                    bodies.add(_body_dump(x.target))
                else:
                    bodies.add("expr:" + norm(x.target_expr) if x.target_expr is not None else "?")
            if len(bodies) > 1:
                bad.append((s, rs))
        construct = f"{registry}[{cfgname}]"
        if bad:
            for s, rs in bad:
                col.violation(f"{construct}::({', '.join(s)})", f"signature registered {len(rs)} times with different rules ({', '.join(x.loc for x in rs)}): which one runs depends on registration order", rs[-1].loc)
        else:
            col.ok(construct, f"{len(by_sig)} distinct signatures" + (f", {len(dups)} benign identical duplicate(s)" if dups else ""), items[0][1].loc, nontrivial=len(by_sig) > 1)
    col.cur.analysed["dispatchers"] = n_disp


def _canon(refs: Refs, r: Registration, text: str) -> str:
    try:
        e = ast.parse(text, mode="eval").body
    except SyntaxError:
        return text
    if isinstance(e, (ast.Name, ast.Attribute)):
        res = refs.prog.resolve_expr(r.module, e)
        return res or text
    return text


def _arity(prog: Program, col: Collector, refs: Refs, cat: Catalogue):
    stateful = {c.fq for c in prog.subclasses("funsor.interpretations.StatefulInterpretation")}
    interp_instances = set()
    for mod in prog.modules.values():
        for name, bs in mod.bindings.items():
            b = bs[-1]
            if b.kind == "assign" and isinstance(b.value, ast.Call):
                callee = refs.resolve(b.value.func)
                if callee in ("funsor.interpretations.DispatchedInterpretation", "funsor.interpretations.PrioritizedInterpretation"):
                    interp_instances.add(f"{mod.name}.{name}")
    for r in cat.registrations:
        if r.method != "register" or not r.pattern:
            continue
        reg = r.registry
        kind = None
        if reg in interp_instances:
            kind = "interp"
        elif reg in stateful:
            kind = "stateful"
        elif reg == "funsor.adjoint.adjoint_ops":
            kind = "adjoint"
        if kind is None:
            continue
        head = refs.resolve(r.pattern[0]) if isinstance(r.pattern[0], (ast.Name, ast.Attribute)) else None
        tc = cat.term_classes.get(head) if head else None
        construct = f"{reg.rsplit('.', 1)[-1]}.register({', '.join(norm(p) for p in r.pattern)})"
        if tc is None:
            col.note(f"{r.module.name}::{construct}", f"first pattern element `{norm(r.pattern[0])}` is a class created at run time (factory / backend distribution); not checked", r.loc)
            continue
        n = len(r.pattern) - 1
        extra = 3 if kind == "adjoint" else 0
        nf = len(tc.fields)
        variadic = isinstance(r.pattern[-1], ast.Subscript) and norm(r.pattern[-1].value) == "Variadic"
        packs = tc.fq == "funsor.cnf.Contraction"  # reflect packs trailing args into the last field
        if tc.vararg_field is not None and not tc.fields:
            ok_len = True  # Distribution(*args): pattern length is checked against _ast_fields at run time
        else:
            ok_len = (n - extra == nf) or (variadic and n - extra >= nf) or (packs and n - extra > nf)
        if not ok_len:
            col.violation(f"{r.module.name}::{construct}", f"pattern has {n - extra} argument types but {tc.name} has {nf} constructor fields {tc.fields}: the rule can never be selected "
                          "and a more general rule runs instead", r.loc)
            continue
        # rule parameters
        if r.target is not None and not isinstance(r.target.node, ast.Lambda):
            params = r.target.positional
            has_var = r.target.node.args.vararg is not None
            want = n + (1 if kind == "stateful" else 0)
            ok_par = (len(params) == want and not (variadic and not has_var)) or (has_var and len(params) <= want)
            if not ok_par:
                col.violation(f"{r.module.name}::{construct}", f"rule {r.target.qualname} takes {len(params)} positional parameter(s){' + *args' if has_var else ''}, the pattern supplies {want}: "
                              "selecting the rule raises TypeError instead of rewriting", r.loc)
                continue
        col.ok(f"{r.module.name}::{construct}", "pattern length agrees with constructor fields and rule parameters", r.loc, nontrivial=False)


def _dispatch_state(prog: Program, col: Collector, refs: Refs):
    for cls_fq, disp_methods, reg_methods in (
            ("funsor.registry.KeyedRegistry", ("__getitem__", "__call__", "dispatch", "__contains__"), ("register",)),
            ("funsor.registry.PartialDispatcher", ("partial_call", "__call__"), ("add",))):
        c = prog.classes.get(cls_fq)
        if c is None:
            raise AnalysisError(f"{cls_fq} not found")
        written: Dict[str, ast.AST] = {}
        for mname in disp_methods:
            m = c.methods.get(mname)
            if m is None:
                continue
            selfn = m.positional[0]
            for n in walk_no_nested(m.node):
                tgt = None
                if isinstance(n, (ast.Assign, ast.AugAssign)):
                    for t in (n.targets if isinstance(n, ast.Assign) else [n.target]):
                        b = t
                        while isinstance(b, ast.Subscript):
                            b = b.value
                        if isinstance(b, ast.Attribute) and isinstance(b.value, ast.Name) and b.value.id == selfn and b is not t or \
                                (isinstance(t, ast.Attribute) and isinstance(t.value, ast.Name) and t.value.id == selfn):
                            tgt = b.attr if isinstance(b, ast.Attribute) else t.attr
                            written[tgt] = n
                if isinstance(n, ast.Call) and isinstance(n.func, ast.Attribute) and n.func.attr in ("setdefault", "update", "add", "append", "pop") \
                        and isinstance(n.func.value, ast.Attribute) and isinstance(n.func.value.value, ast.Name) and n.func.value.value.id == selfn:
                    written[n.func.value.attr] = n
        for attr, node in sorted(written.items()):
            construct = f"{cls_fq}::self.{attr} written while dispatching"
            if cls_fq.endswith("PartialDispatcher") and attr == "_cache":
                # inherited from multipledispatch.Dispatcher, which clears it in add(); our add() must reach super().add
                add = c.methods.get("add")
                reaches = add is not None and any(is_super_call(n, "add") for n in walk_no_nested(add.node))
                col.check(reaches, construct, "multipledispatch's type-keyed cache; cleared by Dispatcher.add, which PartialDispatcher.add calls",
                          "PartialDispatcher.add no longer reaches Dispatcher.add: the dispatch cache is never invalidated by new registrations", c.module.loc(node))
                # ... and nothing on the registration path may put entries (back) into the cache
                selfa = add.positional[0] if add is not None else "self"
                for n in (walk_no_nested(add.node) if add is not None else []):
                    refill = None
                    if isinstance(n, ast.Call) and isinstance(n.func, ast.Attribute) and n.func.attr in ("update", "setdefault", "__setitem__") \
                            and isinstance(n.func.value, ast.Attribute) and n.func.value.attr == "_cache" and norm(n.func.value.value) == selfa:
                        refill = n
                    if isinstance(n, ast.Assign):
                        for t in n.targets:
                            if isinstance(t, ast.Subscript) and isinstance(t.value, ast.Attribute) and t.value.attr == "_cache" and norm(t.value.value) == selfa:
                                refill = n
                            if isinstance(t, ast.Attribute) and t.attr == "_cache" and norm(t.value) == selfa and not (isinstance(n.value, (ast.Dict,)) and not n.value.keys) \
                                    and not (isinstance(n.value, ast.Call) and not n.value.args):
                                refill = n
                    if refill is not None:
                        col.violation(f"{cls_fq}::add::{norm(refill)[:80]}", "the registration path writes entries into the dispatch cache: answers computed before the new rule existed survive it "
                                      "(the rule chosen depends on earlier dispatches)", c.module.loc(refill))
                continue
            invalidated = False
            for rname in reg_methods:
                rm = c.methods.get(rname)
                if rm is None:
                    continue
                for n in ast.walk(rm.node):
                    if isinstance(n, ast.Attribute) and n.attr == attr:
                        invalidated = True
            col.check(invalidated, construct, "also maintained by the registration path",
                      f"self.{attr} memoises a lookup made while dispatching but is not touched by {'/'.join(reg_methods)}: a rule registered later is never seen "
                      "(the choice depends on earlier dispatches)", c.module.loc(node))
        if not written:
            col.ok(f"{cls_fq}::dispatch path is stateless", "no attribute of self is written while dispatching", c.module.loc(c.node))


def _container_types(prog: Program, col: Collector, refs: Refs, cat: Catalogue):
    for r in cat.registrations:
        if r.registry != "funsor.typing.deep_type" or r.target is None:
            continue
        f = r.target
        loops = [n for n in walk_no_nested(f.node) if isinstance(n, ast.For)]
        for lp in loops:
            if not isinstance(lp.target, ast.Name):
                continue
            x = lp.target.id
            def elem_check(test):
                """(failed_edge_label, tp_name) when `test` is [not] deep_isinstance(<x>, <tp>)"""
                neg = isinstance(test, ast.UnaryOp) and isinstance(test.op, ast.Not)
                c = test.operand if neg else test
                if isinstance(c, ast.Call) and refs.resolve(c.func) == "funsor.typing.deep_isinstance" and len(c.args) == 2 \
                        and norm(c.args[0]) == x and isinstance(c.args[1], ast.Name):
                    return ("true" if neg else "false"), c.args[1].id
                return None

            tests = [n for n in ast.walk(lp) if isinstance(n, ast.If) and elem_check(n.test)]
            if not tests:
                continue
            tp = elem_check(tests[0].test)[1]
            # does the reported type use tp?
            rets = [n for n in walk_no_nested(f.node) if isinstance(n, ast.Return) and any(isinstance(y, ast.Name) and y.id == tp for y in ast.walk(n))]
            if not rets:
                continue
            cfg = CFG(f.node)
            for t in tests:
                tn = cfg.nodes_for(t)
                # every path from the true edge of the failed test back to the loop header passes an assignment to tp, another failed-test repair, or raises
                bad_path = None
                failed_label = elem_check(t.test)[0]
                if elem_check(t.test)[1] != tp:
                    continue
                for n0 in tn:
                    for succ, lab in cfg.succ(n0):
                        if lab != failed_label:
                            continue
                        stack = [(succ, [succ])]
                        seen = set()
                        while stack:
                            node, path = stack.pop()
                            if node.idx in seen:
                                continue
                            seen.add(node.idx)
                            if node.kind == "raise":
                                continue
                            a = node.ast
                            if isinstance(a, ast.Assign) and any(isinstance(tg, ast.Name) and tg.id == tp for tg in a.targets) and node.kind == "stmt":
                                continue
                            if isinstance(a, ast.Raise):
                                continue
                            if node.kind == "for" and a is lp:
                                bad_path = path
                                break
                            if node.kind == "exit":
                                bad_path = path
                                break
                            for s2, l2 in cfg.succ(node):
                                stack.append((s2, path + [s2]))
                        if bad_path:
                            break
                construct = f"{f.fq}::{norm(t.test)}"
                if bad_path:
                    col.violation(construct, f"an element that is not an instance of `{tp}` can pass the loop without `{tp}` being widened or an error raised: the reported "
                                  f"FrozenSet/Tuple type is not a type of all elements (a term would not be an instance of its own precise type)", f.loc(t),
                                  path=" -> ".join(f"L{getattr(n.ast, 'lineno', '?')}" for n in bad_path if n.ast is not None))
                else:
                    col.ok(construct, f"a failed element check is followed by widening `{tp}` or raising on every path", f.loc(t))
