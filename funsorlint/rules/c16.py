"""C16 - pattern dispatch picks a rule deterministically (determinism, purity, duplicates, arity; not the order axioms)."""
from __future__ import annotations

import ast
import itertools
from typing import Dict, List, Optional, Set, Tuple

import networkx as nx

from ..catalogue import Catalogue, Registration
from ..cfg import CFG
from ..model import AnalysisError, Func, Program, norm
from ..report import Collector
from .common import Refs, func_label, is_super_call, regions_where, require_func, walk_no_nested

EXPLANATION = (
    "Determinism clauses of pattern dispatch decided on the source. R16.1: in PartialDispatcher.partial_call the type tuple is computed "
    "from all arguments, the dispatch cache is read and written under that same tuple, and the returned rule flows only from the cache "
    "or from dispatch(*types); KeyedRegistry selects the per-class dispatcher by get_origin(key); interpretations call dispatch with the "
    "class and all arguments in order. R16.2: effect analysis of the call graph rooted at deep_issubclass/deep_type - no writes to module "
    "or class state, so lru_cache/dispatch caches cannot change an answer. R16.3: within one dispatcher no signature (after tuple-union "
    "expansion) is registered twice with different rule bodies. R16.4: every registered pattern can fire - its length agrees with the "
    "constructor fields of the term class (or the var-args packing of reflect) and with the rule's parameters. R16.5: reflect builds the "
    "specialised type from the types of all arguments. R16.6: state written on the dispatch path is invalidated by registration. R16.7: "
    "a precise type reported for a container is validated against (or widened for) every element. NOT decided: reflexivity, transitivity "
    "and instance agreement of the recursive subtype relation over all runtime types."
    ' Added since: R16.6 nothing on the registration path refills the dispatch cache.'
    ' Round 4: R16.8 side-taint analysis of the subtype oracle - components of candidate and pattern meet only via deep_issubclass(candidate part, pattern part), issubclass of origins, the nominal super().__subclasscheck__, an ordered zip, len() or `cls is subcls`; R16.9 the object->Any canonicaliser is applied where parameters are stored or where they are compared; R16.10 the registered signature is built from the whole pattern.'
)
ASSUMPTIONS = [
    "multipledispatch.Dispatcher.dispatch is a function of the registered signatures and the type tuple; Dispatcher.add clears its _cache",
    "most-specific-match ordering of multipledispatch itself is trusted (external library)",
]
RULE_TEXT = "one obligation per dataflow clause of the dispatch functions, per function of the subtype-oracle call graph, per dispatcher, per registered pattern"

INTERP_REGISTRY_PREFIXES = ("funsor.interpretations.",)


def run(prog: Program, col: Collector, tier: str, refs: Optional[Refs] = None, cat: Optional[Catalogue] = None):
    refs = refs or Refs(prog)
    cat = cat or Catalogue(prog, refs)

    # ---------------------------------------------------------------- R16.1
    col.rule("R16.1", "the rule chosen is a function of the argument types only", floor=7)
    pc = require_func(prog, "funsor.registry::PartialDispatcher.partial_call")
    var = pc.node.args.vararg.arg if pc.node.args.vararg else None
    types_assign = [n for n in walk_no_nested(pc.node) if isinstance(n, ast.Assign) and len(n.targets) == 1 and isinstance(n.targets[0], ast.Name)
                    and any(isinstance(x, ast.Name) and x.id == var for x in ast.walk(n.value))]
    if var is None or len(types_assign) != 1:
        col.violation(f"{pc.fq}::types", "partial_call does not compute one type tuple from *args", pc.loc())
    else:
        ta = types_assign[0]
        tname = ta.targets[0].id
        v = ta.value
        # tuple(map(f, map(g, args)))  /  tuple(f(g(a)) for a in args): all of args, no slice/filter
        uses = [x for x in ast.walk(v) if isinstance(x, ast.Name) and x.id == var]
        sliced = any(isinstance(ta.module_parent if False else None, ast.Subscript) for _ in [0])
        bad_slice = any(isinstance(p, ast.Subscript) for x in uses for p in [pc.module.parent.get(x)])
        filt = any(isinstance(g, ast.comprehension) and g.ifs for g in ast.walk(v))
        uses_deep_type = any(refs.resolve(x) == "funsor.typing.deep_type" for x in ast.walk(v) if isinstance(x, (ast.Name, ast.Attribute)))
        col.check(len(uses) == 1 and not bad_slice and not filt and uses_deep_type, f"{pc.fq}::{norm(ta)}",
                  "the type tuple is deep_type of every argument, in order", f"the type tuple `{norm(v)}` does not cover all arguments by deep_type", pc.loc(ta))
        # cache read / write keyed by the same name
        cache_subs = [n for n in walk_no_nested(pc.node) if isinstance(n, ast.Subscript) and isinstance(n.value, ast.Attribute) and isinstance(n.value.value, ast.Name)
                      and n.value.value.id == pc.positional[0]]
        _memo_invalidated(prog, col, pc, sorted({n.value.attr for n in cache_subs}))
        keys_ok = bool(cache_subs) and all(isinstance(s.slice, ast.Name) and s.slice.id == tname for s in cache_subs)
        redefs = [n for n in walk_no_nested(pc.node) if isinstance(n, ast.Name) and n.id == tname and isinstance(n.ctx, ast.Store)]
        col.check(keys_ok and len(redefs) == 1, f"{pc.fq}::cache key", "the dispatch cache is read and written under the same type tuple",
                  "the dispatch cache is keyed by something other than the (single) type tuple: a later call may receive a rule cached for other types", pc.loc())
        # what is returned
        rets = [n for n in walk_no_nested(pc.node) if isinstance(n, ast.Return)]
        fname = rets[0].value.id if rets and isinstance(rets[0].value, ast.Name) else None
        srcs = [n for n in walk_no_nested(pc.node) if isinstance(n, ast.Assign) and any(isinstance(t, ast.Name) and t.id == fname for t in n.targets)]
        ok = bool(srcs) and fname is not None
        for s in srcs:
            val = s.value
            from_cache = isinstance(val, ast.Subscript) and val in cache_subs
            from_dispatch = (isinstance(val, ast.Call) and isinstance(val.func, ast.Attribute) and val.func.attr == "dispatch"
                             and len(val.args) == 1 and isinstance(val.args[0], ast.Starred) and norm(val.args[0].value) == tname)
            ok = ok and (from_cache or from_dispatch)
        col.check(ok and len(rets) == 1, f"{pc.fq}::result", "the returned rule comes from the cache entry of the types or from dispatch(*types)",
                  "the returned rule flows from something other than self._cache[types] / self.dispatch(*types)", pc.loc())
        # the value stored in the cache is the dispatched one
        stores = [s for s in cache_subs if isinstance(s.ctx, ast.Store)]
        for s in stores:
            st = pc.module.parent.get(s)
            col.check(isinstance(st, ast.Assign) and isinstance(st.value, ast.Name) and st.value.id == fname, f"{pc.fq}::{norm(st)}",
                      "the cache stores the rule that was dispatched for these types", "the cache stores a value other than the dispatched rule", pc.loc(st))
    kr_get = require_func(prog, "funsor.registry::KeyedRegistry.__getitem__")
    kr_disp = require_func(prog, "funsor.registry::KeyedRegistry.dispatch")
    kr_reg = require_func(prog, "funsor.registry::KeyedRegistry.register")
    # selection by get_origin(key)
    for f in (kr_get, kr_reg):
        keyp = f.positional[1]
        lookups = [n for n in walk_no_nested(f.node) if isinstance(n, (ast.Subscript, ast.Call)) and "registry" in norm(n) and isinstance(n, ast.Subscript)]
        lookups += [n for n in walk_no_nested(f.node) if isinstance(n, ast.Call) and isinstance(n.func, ast.Attribute) and n.func.attr == "get" and "registry" in norm(n.func.value)]
        good = True
        for l in lookups:
            k = l.slice if isinstance(l, ast.Subscript) else (l.args[0] if l.args else None)
            is_origin = isinstance(k, ast.Call) and refs.resolve(k.func) == "funsor.typing.get_origin" and norm(k.args[0]) == keyp
            is_name = isinstance(k, ast.Name) and any(isinstance(a, ast.Assign) and any(isinstance(t, ast.Name) and t.id == k.id for t in a.targets)
                                                      and isinstance(a.value, ast.Call) and refs.resolve(a.value.func) == "funsor.typing.get_origin"
                                                      for a in walk_no_nested(f.node))
            good = good and (is_origin or is_name)
        col.check(good and bool(lookups), f"{f.fq}::dispatcher selection", "the per-class dispatcher is selected by get_origin(key)",
                  "the per-class dispatcher is not selected by get_origin(key): parametrised and plain class keys would use different rule tables", f.loc())
    rets = [n for n in walk_no_nested(kr_disp.node) if isinstance(n, ast.Return)]
    ok = len(rets) == 1 and isinstance(rets[0].value, ast.Call) and isinstance(rets[0].value.func, ast.Attribute) and rets[0].value.func.attr == "partial_call" \
        and len(rets[0].value.args) == 1 and isinstance(rets[0].value.args[0], ast.Starred)
    col.check(ok, f"{kr_disp.fq}::forwards all args", "dispatch forwards all arguments to partial_call", "KeyedRegistry.dispatch does not forward all arguments to partial_call", kr_disp.loc())
    for fq, extra in (("funsor.interpretations::DispatchedInterpretation.interpret", 0), ("funsor.interpretations::StatefulInterpretation.interpret", 1)):
        f = require_func(prog, fq)
        rets = [n for n in walk_no_nested(f.node) if isinstance(n, ast.Return)]
        good = False
        if len(rets) == 1 and isinstance(rets[0].value, ast.Call) and isinstance(rets[0].value.func, ast.Call):
            outer, inner = rets[0].value, rets[0].value.func
            good = (isinstance(inner.func, ast.Attribute) and inner.func.attr == "dispatch" and len(inner.args) == 2
                    and norm(inner.args[0]) == f.positional[1] and isinstance(inner.args[1], ast.Starred)
                    and len(outer.args) == 1 + extra and isinstance(outer.args[-1], ast.Starred) and norm(outer.args[-1].value) == norm(inner.args[1].value))
        col.check(good, f"{f.fq}::dispatch(cls, *args)(*args)", "the rule is selected from the class and all arguments and applied to the same arguments",
                  "interpret does not select the rule by dispatch(cls, *args) and apply it to the same *args", f.loc())

    # ---------------------------------------------------------------- R16.2 purity
    col.rule("R16.2", "the subtype oracle and deep_type are pure functions", floor=10)
    _purity(prog, col, refs, cat)

    # ---------------------------------------------------------------- R16.3 duplicates
    col.rule("R16.3", "no signature is registered twice with different rules in one dispatcher", floor=150)
    _duplicates(prog, col, refs, cat)

    # ---------------------------------------------------------------- R16.4 arity
    col.rule("R16.4", "every registered pattern can fire (arity agrees with constructor and rule)", floor=120)
    _arity(prog, col, refs, cat)

    # ---------------------------------------------------------------- R16.5
    col.rule("R16.5", "the specialised term type is built from the types of all arguments", floor=2)
    rf = require_func(prog, "funsor.terms::reflect")
    argvar = rf.node.args.vararg.arg
    at = [n for n in walk_no_nested(rf.node) if isinstance(n, ast.Assign) and isinstance(n.value, ast.Call) and norm(n.value.func) == "tuple"
          and any(refs.resolve(x) == "funsor.typing.deep_type" for x in ast.walk(n.value) if isinstance(x, (ast.Name, ast.Attribute)))]
    ok = len(at) == 1 and any(isinstance(x, ast.Name) and x.id == argvar for x in ast.walk(at[0].value)) and not any(isinstance(x, ast.Subscript) for x in ast.walk(at[0].value))
    col.check(ok, f"{rf.fq}::arg_types", "arg_types = deep_type of every argument", "arg_types is not computed from all arguments with deep_type", rf.loc(at[0]) if at else rf.loc())
    if at:
        tn = at[0].targets[0].id
        spec = [n for n in walk_no_nested(rf.node) if isinstance(n, ast.Subscript) and isinstance(n.slice, ast.Name) and n.slice.id == tn]
        ok = len(spec) == 1 and isinstance(spec[0].value, ast.Call) and refs.resolve(spec[0].value.func) == "funsor.typing.get_origin" and norm(spec[0].value.args[0]) == rf.positional[0]
        ctor = [n for n in walk_no_nested(rf.node) if isinstance(n, ast.Call) and is_super_call(n, "__call__")]
        spec_name = None
        if spec:
            st = rf.module.parent.get(spec[0])
            if isinstance(st, ast.Assign) and isinstance(st.targets[0], ast.Name):
                spec_name = st.targets[0].id
        used = bool(ctor) and spec_name is not None and any(isinstance(a, ast.Name) and a.id == spec_name for a in ctor[0].func.value.args)
        col.check(ok and used, f"{rf.fq}::specialised class", "the instantiated class is get_origin(cls)[arg_types]",
                  "the class that is instantiated is not get_origin(cls)[arg_types]: the precise type patterns are matched against does not reflect the arguments", rf.loc())

    # ---------------------------------------------------------------- R16.6 cache invalidation
    col.rule("R16.6", "state written on the dispatch path is invalidated by registration", floor=2)
    _dispatch_state(prog, col, refs)

    # ---------------------------------------------------------------- R16.7 container precise types
    col.rule("R16.7", "a precise element type reported for a container is validated or widened for every element", floor=1)
    _container_types(prog, col, refs, cat)

    # ---------------------------------------------------------------- R16.8 covariant structural recursion
    col.rule("R16.8", "component types of the two sides meet only through the covariant recursive call (or a nominal check of origins)", floor=12)
    _covariant_recursion(prog, col, refs, cat)

    # ---------------------------------------------------------------- R16.11 a bare container is the container of Any
    col.rule("R16.11", "a candidate without parameters is compared as the container of Any (accepted only by patterns whose parameter is Any)", floor=2)
    _bare_candidate(prog, col, refs, cat)

    # ---------------------------------------------------------------- R16.15 the type of a VALUE is never memoised by equality
    col.rule("R16.15", "deep_type and its handlers are not memoised on the value (equal values can have different types: 1 == 1.0 == True)", floor=3)
    _deep_type_not_memoised(prog, col, refs)

    # ---------------------------------------------------------------- R16.16 the builtin issubclass is asked about classes only
    col.rule("R16.16", "the oracle's fallback to the builtin issubclass passes a class: a subscripted typing generic is replaced by its origin first", floor=1)
    di = prog.funcs.get("funsor.typing::deep_issubclass")
    if di is None:
        raise AnalysisError("anchor funsor.typing::deep_issubclass not found")
    sub_p = di.positional[0]
    handles_generics = any(isinstance(c, ast.Call) and norm(c.func).rsplit(".", 1)[-1] in ("get_origin", "get_args") and c.args and norm(c.args[0]) == sub_p for c in ast.walk(di.node))
    for c in ast.walk(di.node):
        if not (isinstance(c, ast.Call) and isinstance(c.func, ast.Name) and c.func.id == "issubclass" and len(c.args) == 2):
            continue
        a0 = c.args[0]
        construct = f"{di.fq}::{norm(c)}"
        unwrapped_inline = any(isinstance(y, ast.Call) and norm(y.func).rsplit(".", 1)[-1] == "get_origin" for y in ast.walk(a0))
        # a re-binding `sub = get_origin(sub) or sub` (possibly under `if not isinstance(sub, type):`) earlier in the same block chain
        rebinds = [st for st in ast.walk(di.node) if isinstance(st, ast.Assign) and norm(st.targets[0]) == norm(a0) and st.lineno < c.lineno
                   and any(isinstance(y, ast.Call) and norm(y.func).rsplit(".", 1)[-1] == "get_origin" for y in ast.walk(st.value))]
        guarded = any(isinstance(g_, ast.If) and "isinstance" in norm(g_.test) and norm(a0) in norm(g_.test) and "type" in norm(g_.test) and any(c is z for st_ in g_.body for z in ast.walk(st_))
                      for g_ in di.module.ancestors(c))
        if unwrapped_inline or rebinds or guarded:
            col.ok(construct, "the argument is a class: typing generics were replaced by their origin", di.loc(c))
        elif isinstance(a0, ast.Name) and a0.id == sub_p and handles_generics:
            col.violation(construct, f"`{sub_p}` reaches the builtin issubclass as it was passed in; elsewhere the function treats it as a possibly subscripted typing generic "
                          "(get_origin / get_args), and issubclass(Tuple[int], object) raises TypeError instead of answering: the relation has no verdict for a parametrised Tuple or "
                          "FrozenSet against a plain class, although Tuple[int] <= tuple <= object", di.loc(c))
        else:
            col.unresolved(construct, f"argument `{norm(a0)}` not recognised", di.loc(c))
    # ---------------------------------------------------------------- R16.14 exception handlers of the oracle do not decide
    col.rule("R16.14", "an exception handler inside the subtype oracle re-raises or asks again - it never answers with a constant", floor=2)
    _oracle_handlers_do_not_decide(prog, col, refs, cat)

    # ---------------------------------------------------------------- R16.13 every op application is dispatched
    col.rule("R16.13", "the implementation an op applies to its operands always comes from the dispatcher", floor=1)
    _op_call_dispatches(prog, col, refs)

    # ---------------------------------------------------------------- R16.12 per-class dispatch state
    col.rule("R16.12", "metaclasses give every class its own tables and pass registered patterns down the whole MRO", floor=3)
    _per_class_state(prog, col, refs, cat)

    # ---------------------------------------------------------------- R16.9 canonical parameters
    col.rule("R16.9", "type parameters are canonicalised (object -> Any) before they are stored or compared", floor=2)
    _canonical_parameters(prog, col, refs)

    # ---------------------------------------------------------------- R16.10 registration keeps the whole pattern
    col.rule("R16.10", "the signature registered is built from the whole pattern (no element or tail dropped)", floor=3)
    _whole_pattern(prog, col, refs)
    return col


def _purity(prog: Program, col: Collector, refs: Refs, cat: Catalogue):
    roots = ["funsor.typing::deep_issubclass", "funsor.typing::deep_type", "funsor.typing::deep_isinstance"]
    # call graph: resolved calls + registered subclasscheck / deep_type implementations + __subclasscheck__ methods
    g = nx.DiGraph()
    funcs = prog.funcs

    def callees(f: Func):
        out = set()
        for n in walk_no_nested(f.node):
            if isinstance(n, ast.Call):
                r = refs.resolve(n.func)
                if r:
                    lk = prog.lookup(r)
                    if lk and lk[0] == "func":
                        out.add(lk[1].fq)
        return out

    extra = set()
    for r in cat.registrations:
        if r.registry in ("funsor.typing.deep_type",) and r.target is not None:
            extra.add(r.target.fq)
    for f in funcs.values():
        if any(isinstance(d, ast.Call) and refs.resolve(d.func) == "funsor.typing.register_subclasscheck" for d in f.decorators):
            extra.add(f.fq)
        if f.name == "__subclasscheck__" and f.module.name in ("funsor.typing", "funsor.domains"):
            extra.add(f.fq)
    todo = [r for r in roots if r in funcs] + sorted(extra)
    if len(todo) < 8:
        raise AnalysisError(f"subtype oracle call graph too small ({todo})")
    seen = set()
    while todo:
        fq = todo.pop()
        if fq in seen or fq not in funcs:
            continue
        seen.add(fq)
        for c in callees(funcs[fq]):
            if c.startswith("funsor.typing::") or c.startswith("funsor.domains::"):
                todo.append(c)
    allowed_writer = "funsor.typing::register_subclasscheck._fn"
    for fq in sorted(seen):
        f = funcs[fq]
        effects = []
        for n in walk_no_nested(f.node):
            if isinstance(n, (ast.Global, ast.Nonlocal)):
                effects.append(f"{norm(n)}")
            if isinstance(n, (ast.Assign, ast.AugAssign, ast.Delete)):
                tgts = n.targets if isinstance(n, (ast.Assign, ast.Delete)) else [n.target]
                for t in tgts:
                    if isinstance(t, (ast.Attribute, ast.Subscript)):
                        base = t
                        while isinstance(base, (ast.Attribute, ast.Subscript)):
                            base = base.value
                        # writes into locals built in this function are not effects
                        local_fresh = isinstance(base, ast.Name) and any(
                            isinstance(a, ast.Assign) and any(isinstance(x, ast.Name) and x.id == base.id for x in a.targets)
                            and isinstance(a.value, (ast.Dict, ast.List, ast.Set, ast.Call, ast.ListComp, ast.DictComp)) for a in walk_no_nested(f.node))
                        if not local_fresh:
                            effects.append(norm(n))
            if isinstance(n, ast.Call) and isinstance(n.func, ast.Attribute) and n.func.attr in ("append", "add", "update", "pop", "setdefault", "clear", "remove", "extend", "insert"):
                base = n.func.value
                while isinstance(base, (ast.Attribute, ast.Subscript)):
                    base = base.value
                local_fresh = isinstance(base, ast.Name) and any(
                    isinstance(a, ast.Assign) and any(isinstance(x, ast.Name) and x.id == base.id for x in a.targets) for a in walk_no_nested(f.node))
                if not local_fresh:
                    effects.append(norm(n))
            if isinstance(n, ast.Call) and refs.resolve(n.func) in ("builtins.setattr", "builtins.delattr"):
                effects.append(norm(n))
        # GenericTypeMeta.__getitem__ etc. are interning (not on the oracle's graph unless called)
        col.check(not effects, f"{fq}::no side effects", "reads only; no write to module, class or argument state",
                  f"the subtype oracle writes state ({effects[:3]}): an answer can depend on earlier queries (and lru_cache/dispatch caches freeze it)", f.loc())
    # the registry the oracle reads is written only at import time by the decorator
    for mod, node in refs.to("funsor.typing._subclasscheck_registry"):
        p = mod.parent.get(node)
        if isinstance(p, ast.Subscript) and isinstance(p.ctx, (ast.Store, ast.Del)):
            where = func_label(prog, mod, node)
            col.check(where == allowed_writer, f"{where}::{norm(mod.parent.get(p))}", "written only by the register_subclasscheck decorator",
                      "the subclass-check registry is written outside the registration decorator", mod.loc(node))


def _expand(pattern: List[ast.expr]) -> List[Tuple[str, ...]]:
    alts = []
    for p in pattern:
        if isinstance(p, ast.Tuple):
            alts.append([norm(e) for e in p.elts])
        else:
            alts.append([norm(p)])
    return list(itertools.product(*alts))


def _body_dump(f: Func) -> str:
    return "\n".join(ast.dump(s) for s in f.body if not (isinstance(s, ast.Expr) and isinstance(s.value, ast.Constant)))


def _config(modname: str) -> str:
    if modname.startswith("funsor.torch") or modname.startswith("funsor.pyro") or modname == "funsor.minipyro" or modname == "funsor.compat.ops":
        return "torch"
    if modname.startswith("funsor.jax"):
        return "jax"
    return "core"


def _resolved_pattern(refs: Refs, pat: Tuple[str, ...], reg: Registration) -> Tuple[str, ...]:
    return pat


def _duplicates(prog: Program, col: Collector, refs: Refs, cat: Catalogue):
    groups: Dict[Tuple[str, str], List[Tuple[Tuple[str, ...], Registration]]] = {}
    for r in cat.registrations:
        if r.method != "register" or not r.pattern:
            continue
        if r.registry.startswith("?") or any(isinstance(p, ast.Starred) for p in r.pattern):
            continue  # patterns computed at run time (factories) are not comparable statically
        for sig in cat.expand_pattern(r):
            # resolve each element to a canonical name where possible so that aliases compare equal
            groups.setdefault((r.registry, _config(r.module.name)), []).append((sig, r))
    n_disp = 0
    for (registry, cfgname), items in sorted(groups.items()):
        by_sig: Dict[Tuple[str, ...], List[Registration]] = {}
        for sig, r in items:
            # canonicalise with resolution
            canon = tuple(_canon(refs, r, s) for s in sig)
            by_sig.setdefault(canon, []).append(r)
        n_disp += 1
        dups = {s: rs for s, rs in by_sig.items() if len({id(x.node) for x in rs}) > 1}
        bad = []
        for s, rs in dups.items():
            bodies = set()
            for x in rs:
                if x.target is not None:
                    bodies.add(_body_dump(x.target))
                else:
                    bodies.add("expr:" + norm(x.target_expr) if x.target_expr is not None else "?")
            if len(bodies) > 1:
                bad.append((s, rs))
        construct = f"{registry}[{cfgname}]"
        if bad:
            for s, rs in bad:
                col.violation(f"{construct}::({', '.join(s)})", f"signature registered {len(rs)} times with different rules ({', '.join(x.loc for x in rs)}): which one runs depends on registration order", rs[-1].loc)
        else:
            col.ok(construct, f"{len(by_sig)} distinct signatures" + (f", {len(dups)} benign identical duplicate(s)" if dups else ""), items[0][1].loc, nontrivial=len(by_sig) > 1)
    col.cur.analysed["dispatchers"] = n_disp


def _canon(refs: Refs, r: Registration, text: str) -> str:
    try:
        e = ast.parse(text, mode="eval").body
    except SyntaxError:
        return text
    if isinstance(e, (ast.Name, ast.Attribute)):
        res = refs.prog.resolve_expr(r.module, e)
        return res or text
    return text


def _arity(prog: Program, col: Collector, refs: Refs, cat: Catalogue):
    stateful = {c.fq for c in prog.subclasses("funsor.interpretations.StatefulInterpretation")}
    interp_instances = set()
    for mod in prog.modules.values():
        for name, bs in mod.bindings.items():
            b = bs[-1]
            if b.kind == "assign" and isinstance(b.value, ast.Call):
                callee = refs.resolve(b.value.func)
                if callee in ("funsor.interpretations.DispatchedInterpretation", "funsor.interpretations.PrioritizedInterpretation"):
                    interp_instances.add(f"{mod.name}.{name}")
    for r in cat.registrations:
        if r.method != "register" or not r.pattern:
            continue
        reg = r.registry
        kind = None
        if reg in interp_instances:
            kind = "interp"
        elif reg in stateful:
            kind = "stateful"
        elif reg == "funsor.adjoint.adjoint_ops":
            kind = "adjoint"
        if kind is None:
            continue
        head = refs.resolve(r.pattern[0]) if isinstance(r.pattern[0], (ast.Name, ast.Attribute)) else None
        tc = cat.term_classes.get(head) if head else None
        construct = f"{reg.rsplit('.', 1)[-1]}.register({', '.join(norm(p) for p in r.pattern)})"
        if tc is None:
            col.note(f"{r.module.name}::{construct}", f"first pattern element `{norm(r.pattern[0])}` is a class created at run time (factory / backend distribution); not checked", r.loc)
            continue
        n = len(r.pattern) - 1
        extra = 3 if kind == "adjoint" else 0
        nf = len(tc.fields)
        variadic = isinstance(r.pattern[-1], ast.Subscript) and norm(r.pattern[-1].value) == "Variadic"
        packs = tc.fq == "funsor.cnf.Contraction"  # reflect packs trailing args into the last field
        if tc.vararg_field is not None and not tc.fields:
            ok_len = True  # Distribution(*args): pattern length is checked against _ast_fields at run time
        else:
            ok_len = (n - extra == nf) or (variadic and n - extra >= nf) or (packs and n - extra > nf)
        if not ok_len:
            col.violation(f"{r.module.name}::{construct}", f"pattern has {n - extra} argument types but {tc.name} has {nf} constructor fields {tc.fields}: the rule can never be selected "
                          "and a more general rule runs instead", r.loc)
            continue
        # rule parameters
        if r.target is not None and not isinstance(r.target.node, ast.Lambda):
            params = r.target.positional
            has_var = r.target.node.args.vararg is not None
            want = n + (1 if kind == "stateful" else 0)
            ok_par = (len(params) == want and not (variadic and not has_var)) or (has_var and len(params) <= want)
            if not ok_par:
                col.violation(f"{r.module.name}::{construct}", f"rule {r.target.qualname} takes {len(params)} positional parameter(s){' + *args' if has_var else ''}, the pattern supplies {want}: "
                              "selecting the rule raises TypeError instead of rewriting", r.loc)
                continue
        col.ok(f"{r.module.name}::{construct}", "pattern length agrees with constructor fields and rule parameters", r.loc, nontrivial=False)


def _dispatch_state(prog: Program, col: Collector, refs: Refs):
    for cls_fq, disp_methods, reg_methods in (
            ("funsor.registry.KeyedRegistry", ("__getitem__", "__call__", "dispatch", "__contains__"), ("register",)),
            ("funsor.registry.PartialDispatcher", ("partial_call", "__call__"), ("add",))):
        c = prog.classes.get(cls_fq)
        if c is None:
            raise AnalysisError(f"{cls_fq} not found")
        written: Dict[str, ast.AST] = {}
        for mname in disp_methods:
            m = c.methods.get(mname)
            if m is None:
                continue
            selfn = m.positional[0]
            for n in walk_no_nested(m.node):
                tgt = None
                if isinstance(n, (ast.Assign, ast.AugAssign)):
                    for t in (n.targets if isinstance(n, ast.Assign) else [n.target]):
                        b = t
                        while isinstance(b, ast.Subscript):
                            b = b.value
                        if isinstance(b, ast.Attribute) and isinstance(b.value, ast.Name) and b.value.id == selfn and b is not t or \
                                (isinstance(t, ast.Attribute) and isinstance(t.value, ast.Name) and t.value.id == selfn):
                            tgt = b.attr if isinstance(b, ast.Attribute) else t.attr
                            written[tgt] = n
                if isinstance(n, ast.Call) and isinstance(n.func, ast.Attribute) and n.func.attr in ("setdefault", "update", "add", "append", "pop") \
                        and isinstance(n.func.value, ast.Attribute) and isinstance(n.func.value.value, ast.Name) and n.func.value.value.id == selfn:
                    written[n.func.value.attr] = n
        for attr, node in sorted(written.items()):
            construct = f"{cls_fq}::self.{attr} written while dispatching"
            if cls_fq.endswith("PartialDispatcher") and attr == "_cache":
                # inherited from multipledispatch.Dispatcher, which clears it in add(); our add() must reach super().add
                add = c.methods.get("add")
                reaches = add is not None and any(is_super_call(n, "add") for n in walk_no_nested(add.node))
                col.check(reaches, construct, "multipledispatch's type-keyed cache; cleared by Dispatcher.add, which PartialDispatcher.add calls",
                          "PartialDispatcher.add no longer reaches Dispatcher.add: the dispatch cache is never invalidated by new registrations", c.module.loc(node))
                # ... and nothing on the registration path may put entries (back) into the cache
                selfa = add.positional[0] if add is not None else "self"
                for n in (walk_no_nested(add.node) if add is not None else []):
                    refill = None
                    if isinstance(n, ast.Call) and isinstance(n.func, ast.Attribute) and n.func.attr in ("update", "setdefault", "__setitem__") \
                            and isinstance(n.func.value, ast.Attribute) and n.func.value.attr == "_cache" and norm(n.func.value.value) == selfa:
                        refill = n
                    if isinstance(n, ast.Assign):
                        for t in n.targets:
                            if isinstance(t, ast.Subscript) and isinstance(t.value, ast.Attribute) and t.value.attr == "_cache" and norm(t.value.value) == selfa:
                                refill = n
                            if isinstance(t, ast.Attribute) and t.attr == "_cache" and norm(t.value) == selfa and not (isinstance(n.value, (ast.Dict,)) and not n.value.keys) \
                                    and not (isinstance(n.value, ast.Call) and not n.value.args):
                                refill = n
                    if refill is not None:
                        col.violation(f"{cls_fq}::add::{norm(refill)[:80]}", "the registration path writes entries into the dispatch cache: answers computed before the new rule existed survive it "
                                      "(the rule chosen depends on earlier dispatches)", c.module.loc(refill))
                continue
            invalidated = False
            for rname in reg_methods:
                rm = c.methods.get(rname)
                if rm is None:
                    continue
                for n in ast.walk(rm.node):
                    if isinstance(n, ast.Attribute) and n.attr == attr:
                        invalidated = True
            col.check(invalidated, construct, "also maintained by the registration path",
                      f"self.{attr} memoises a lookup made while dispatching but is not touched by {'/'.join(reg_methods)}: a rule registered later is never seen "
                      "(the choice depends on earlier dispatches)", c.module.loc(node))
        if not written:
            col.ok(f"{cls_fq}::dispatch path is stateless", "no attribute of self is written while dispatching", c.module.loc(c.node))


def _container_types(prog: Program, col: Collector, refs: Refs, cat: Catalogue):
    for r in cat.registrations:
        if r.registry != "funsor.typing.deep_type" or r.target is None:
            continue
        f = r.target
        loops = [n for n in walk_no_nested(f.node) if isinstance(n, ast.For)]
        for lp in loops:
            if not isinstance(lp.target, ast.Name):
                continue
            x = lp.target.id
            def elem_check(test):
                """(failed_edge_label, tp_name) when `test` is [not] deep_isinstance(<x>, <tp>)"""
                neg = isinstance(test, ast.UnaryOp) and isinstance(test.op, ast.Not)
                c = test.operand if neg else test
                if isinstance(c, ast.Call) and refs.resolve(c.func) == "funsor.typing.deep_isinstance" and len(c.args) == 2 \
                        and norm(c.args[0]) == x and isinstance(c.args[1], ast.Name):
                    return ("true" if neg else "false"), c.args[1].id
                return None

            tests = [n for n in ast.walk(lp) if isinstance(n, ast.If) and elem_check(n.test)]
            if not tests:
                continue
            tp = elem_check(tests[0].test)[1]
            # does the reported type use tp?
            rets = [n for n in walk_no_nested(f.node) if isinstance(n, ast.Return) and any(isinstance(y, ast.Name) and y.id == tp for y in ast.walk(n))]
            if not rets:
                continue
            cfg = CFG(f.node)
            for t in tests:
                tn = cfg.nodes_for(t)
                # every path from the true edge of the failed test back to the loop header passes an assignment to tp, another failed-test repair, or raises
                bad_path = None
                failed_label = elem_check(t.test)[0]
                if elem_check(t.test)[1] != tp:
                    continue
                for n0 in tn:
                    for succ, lab in cfg.succ(n0):
                        if lab != failed_label:
                            continue
                        stack = [(succ, [succ])]
                        seen = set()
                        while stack:
                            node, path = stack.pop()
                            if node.idx in seen:
                                continue
                            seen.add(node.idx)
                            if node.kind == "raise":
                                continue
                            a = node.ast
                            if isinstance(a, ast.Assign) and any(isinstance(tg, ast.Name) and tg.id == tp for tg in a.targets) and node.kind == "stmt":
                                continue
                            if isinstance(a, ast.Raise):
                                continue
                            if node.kind == "for" and a is lp:
                                bad_path = path
                                break
                            if node.kind == "exit":
                                bad_path = path
                                break
                            for s2, l2 in cfg.succ(node):
                                stack.append((s2, path + [s2]))
                        if bad_path:
                            break
                construct = f"{f.fq}::{norm(t.test)}"
                if bad_path:
                    col.violation(construct, f"an element that is not an instance of `{tp}` can pass the loop without `{tp}` being widened or an error raised: the reported "
                                  f"FrozenSet/Tuple type is not a type of all elements (a term would not be an instance of its own precise type)", f.loc(t),
                                  path=" -> ".join(f"L{getattr(n.ast, 'lineno', '?')}" for n in bad_path if n.ast is not None))
                else:
                    col.ok(construct, f"a failed element check is followed by widening `{tp}` or raising on every path", f.loc(t))


# ---------------------------------------------------------------------- R16.8
SUB, CLS = "sub", "cls"


def _oracle_functions(prog: Program, refs: Refs, cat: Catalogue):
    """(function, {param: side}) for every function of the subtype oracle: deep_issubclass, the handlers it dispatches to through
    the subclasscheck table, and every __subclasscheck__ metaclass method of funsor.typing."""
    root = require_func(prog, "funsor.typing::deep_issubclass")
    if len(root.positional) != 2:
        raise AnalysisError("deep_issubclass no longer takes (subcls, cls)")
    out = [(root, {root.positional[0]: SUB, root.positional[1]: CLS})]
    # side of the handler parameters: read off the table call inside deep_issubclass
    handler_sides = None
    for c in ast.walk(root.node):
        if isinstance(c, ast.Call) and isinstance(c.func, ast.Subscript) and len(c.args) == 2 and all(isinstance(a, ast.Name) for a in c.args):
            sides = [out[0][1].get(a.id) for a in c.args]
            if None not in sides and set(sides) == {SUB, CLS}:
                handler_sides = sides
                table = refs.resolve(c.func.value) if isinstance(c.func.value, (ast.Name, ast.Attribute)) else None
    if handler_sides is None:
        raise AnalysisError("deep_issubclass no longer dispatches to a table of per-origin handlers with (cls, subcls)")
    mod = root.module
    # handlers: functions decorated with the registering decorator (a function whose inner function stores into the table)
    for f in prog.functions_in(mod):
        if f.cls is not None or f.parent is not None or isinstance(f.node, ast.Lambda):
            continue
        decs = [d for d in f.decorators if isinstance(d, ast.Call) and isinstance(d.func, ast.Name)]
        is_handler = False
        for d in decs:
            dr = refs.resolve(d.func)
            df = prog.funcs.get((dr or "").replace("funsor.typing.", "funsor.typing::", 1)) if dr else None
            if df is not None and any(isinstance(n, ast.Subscript) and isinstance(n.ctx, ast.Store) and refs.resolve(n.value) == table
                                      for n in ast.walk(df.node) if isinstance(getattr(n, "value", None), (ast.Name, ast.Attribute))):
                is_handler = True
        if is_handler and len(f.positional) == 2:
            out.append((f, {f.positional[0]: handler_sides[0], f.positional[1]: handler_sides[1]}))
    for c in prog.classes.values():
        if c.module is mod and "__subclasscheck__" in c.methods:
            m = c.methods["__subclasscheck__"]
            if len(m.positional) == 2:
                out.append((m, {m.positional[0]: CLS, m.positional[1]: SUB}))
    return out


def _covariant_recursion(prog: Program, col: Collector, refs: Refs, cat: Catalogue):
    funcs = _oracle_functions(prog, refs, cat)
    col.cur.analysed["oracle_functions"] = [f.fq for f, _ in funcs]
    n_rec = 0
    for f, sides in funcs:
        taint: Dict[str, Set[str]] = {k: {v} for k, v in sides.items()}

        def t_of(e) -> Set[str]:
            if e is None:
                return set()
            if isinstance(e, ast.Call) and isinstance(e.func, ast.Name) and e.func.id == "len":
                return set()
            if isinstance(e, (ast.GeneratorExp, ast.ListComp, ast.SetComp, ast.DictComp, ast.Lambda)):
                return set()
            if isinstance(e, ast.Name):
                return set(taint.get(e.id, ()))
            out = set()
            for ch in ast.iter_child_nodes(e):
                out |= t_of(ch)
            return out

        def bind(target, value_taints):
            changed = False
            if isinstance(target, ast.Name):
                cur = taint.setdefault(target.id, set())
                if not value_taints <= cur:
                    cur |= value_taints
                    changed = True
            elif isinstance(target, (ast.Tuple, ast.List)):
                for e in target.elts:
                    changed |= bind(e, value_taints)
            return changed

        def bind_iter(target, it):
            # for a, b in zip(X, Y): elementwise
            if isinstance(it, ast.Call) and isinstance(it.func, ast.Name) and it.func.id == "zip" and isinstance(target, (ast.Tuple, ast.List)) \
                    and len(target.elts) == len(it.args):
                ch = False
                for te, a in zip(target.elts, it.args):
                    ch |= bind(te, t_of(a))
                return ch
            return bind(target, t_of(it))

        for _ in range(6):
            changed = False
            for n in ast.walk(f.node):
                if isinstance(n, ast.Assign):
                    for tg in n.targets:
                        if isinstance(tg, (ast.Tuple, ast.List)) and isinstance(n.value, (ast.Tuple, ast.List)) and len(tg.elts) == len(n.value.elts):
                            for te, ve in zip(tg.elts, n.value.elts):
                                changed |= bind(te, t_of(ve))
                        else:
                            changed |= bind(tg, t_of(n.value))
                elif isinstance(n, ast.For):
                    changed |= bind_iter(n.target, n.iter)
                elif isinstance(n, ast.comprehension):
                    changed |= bind_iter(n.target, n.iter)
                elif isinstance(n, ast.NamedExpr):
                    changed |= bind(n.target, t_of(n.value))
            if not changed:
                break

        def both(ts):
            return SUB in ts and CLS in ts

        for n in ast.walk(f.node):
            loc = f.loc(n) if hasattr(n, "lineno") else f.loc()
            if isinstance(n, ast.Call):
                callee = refs.resolve(n.func) if isinstance(n.func, (ast.Name, ast.Attribute)) else None
                arg_ts = [t_of(a.value if isinstance(a, ast.Starred) else a) for a in n.args] + [t_of(k.value) for k in n.keywords]
                recv_t = t_of(n.func.value) if isinstance(n.func, ast.Attribute) else (t_of(n.func) if not isinstance(n.func, ast.Name) else set())
                construct = f"{f.fq}::{norm(n)}"
                if callee == "funsor.typing.deep_issubclass" and len(n.args) == 2:
                    n_rec += 1
                    a, b = arg_ts[0], arg_ts[1]
                    col.check(CLS not in a and SUB not in b and bool(a) and bool(b), construct,
                              "recursive comparison is covariant: (component of the candidate subtype, component of the pattern)",
                              f"the recursive call compares {sorted(a) or ['nothing']} against {sorted(b) or ['nothing']}: components of the candidate subtype must be on the left and "
                              "components of the pattern on the right (anything else makes the relation contravariant or compares a side with itself)", loc)
                    continue
                if callee == "builtins.issubclass" and len(n.args) == 2:
                    a, b = arg_ts[0], arg_ts[1]
                    def nominal(e, params_side):
                        if isinstance(e, ast.IfExp):  # `x if isinstance(x, type) else get_origin(x) or x`
                            return nominal(e.body, params_side) and nominal(e.orelse, params_side)
                        if isinstance(e, ast.BoolOp) and isinstance(e.op, ast.Or):
                            return all(nominal(v_, params_side) for v_ in e.values)
                        return (isinstance(e, ast.Name) and e.id in sides) or (isinstance(e, ast.Call) and refs.resolve(e.func) == "funsor.typing.get_origin")
                    good = CLS not in a and SUB not in b and nominal(n.args[0], SUB) and nominal(n.args[1], CLS)
                    # a nominal check of the candidate's origin against a fixed class (frozenset) has an untainted right side
                    if not b and CLS not in a:
                        good = True
                    col.check(good, construct, "nominal check of the origins, candidate on the left",
                              "issubclass is applied to something other than the two sides (or their origins) in (candidate, pattern) order", loc)
                    continue
                if isinstance(n.func, ast.Attribute) and n.func.attr == "__subclasscheck__":
                    # super(Meta, origin_of_pattern).__subclasscheck__(candidate [origin])
                    a = arg_ts[0] if arg_ts else set()
                    col.check(SUB not in recv_t and CLS not in a, construct, "nominal delegation: pattern's origin asks about the candidate",
                              "the nominal __subclasscheck__ delegation has the sides swapped", loc)
                    continue
                if isinstance(n.func, ast.Subscript) and len(n.args) == 2:
                    # the handler table call
                    continue
                if isinstance(n.func, ast.Name) and n.func.id == "zip":
                    p = f.module.parent.get(n)
                    if isinstance(p, (ast.comprehension, ast.For)) and p.iter is n and isinstance(p.target, (ast.Tuple, ast.List)) and len(p.target.elts) == len(n.args):
                        continue
                mixed = both(set().union(*arg_ts, recv_t)) if (arg_ts or recv_t) else False
                if mixed:
                    col.violation(construct, "components of the candidate subtype and of the pattern are combined by a call other than the recursive deep_issubclass / a nominal "
                                  "origin check: parameters have subtypes, so comparing them by identity, equality or set membership loses every generalisation", loc)
            elif isinstance(n, ast.Compare):
                ops_identity = all(isinstance(o, (ast.Is, ast.IsNot)) for o in n.ops)
                ts = [t_of(n.left)] + [t_of(c) for c in n.comparators]
                allt = set().union(*ts)
                if both(allt) and not ops_identity:
                    col.violation(f"{f.fq}::{norm(n)}", "components of the two sides are compared with ==/!=/in/<=: the parametric relation must recurse through deep_issubclass", loc)
                elif both(allt):
                    # `cls is subcls`: reflexivity shortcut, only sound between the two whole sides
                    whole = all(isinstance(x, ast.Name) and x.id in sides for x in [n.left] + list(n.comparators))
                    col.check(whole, f"{f.fq}::{norm(n)}", "identity shortcut between the two whole types (reflexivity)",
                              "identity comparison between components of the two sides: subtypes of a parameter are rejected", loc)
            elif isinstance(n, ast.BinOp):
                if both(t_of(n.left) | t_of(n.right)) and not isinstance(n.op, (ast.Mod,)):
                    col.violation(f"{f.fq}::{norm(n)}", "components of the two sides are combined arithmetically / as sets instead of through the recursive relation", loc)
    col.cur.analysed["recursive_comparisons"] = n_rec
    if n_rec < 8:
        raise AnalysisError(f"only {n_rec} recursive deep_issubclass comparison(s) found in the subtype oracle; expected at least 8")


# ---------------------------------------------------------------------- R16.9
def _canonical_parameters(prog: Program, col: Collector, refs: Refs):
    mod = prog.modules.get("funsor.typing")
    if mod is None:
        raise AnalysisError("funsor.typing not found")
    # the canonicaliser by role: a one-parameter function that rebinds its parameter to typing.Any when it `is object`
    canon = []
    for f in prog.functions_in(mod):
        if f.cls is not None or isinstance(f.node, ast.Lambda) or len(f.positional) != 1:
            continue
        p = f.positional[0]
        for n in walk_no_nested(f.node):
            if isinstance(n, (ast.If, ast.IfExp)) and isinstance(n.test, ast.Compare) and len(n.test.ops) == 1 and isinstance(n.test.ops[0], (ast.Is, ast.Eq)) \
                    and {norm(n.test.left), norm(n.test.comparators[0])} == {p, "object"}:
                if any(refs.resolve(x) == "typing.Any" for x in ast.walk(n) if isinstance(x, (ast.Name, ast.Attribute))):
                    canon.append(f)
    if not canon:
        raise AnalysisError("cannot locate the parameter canonicaliser (object -> typing.Any) of funsor.typing by role")
    canon_names = {f"funsor.typing.{f.name}" for f in canon}
    gtm = prog.classes.get("funsor.typing.GenericTypeMeta")
    if gtm is None or "__getitem__" not in gtm.methods or "__subclasscheck__" not in gtm.methods:
        raise AnalysisError("GenericTypeMeta.__getitem__/__subclasscheck__ not found")
    gi, sc = gtm.methods["__getitem__"], gtm.methods["__subclasscheck__"]

    def is_canon_app(e) -> bool:
        if isinstance(e, ast.Call):
            r = refs.resolve(e.func) if isinstance(e.func, (ast.Name, ast.Attribute)) else None
            if r in canon_names:
                return True
            if isinstance(e.func, ast.Name) and e.func.id in ("tuple", "list") and len(e.args) == 1:
                return is_canon_app(e.args[0])
            if isinstance(e.func, ast.Name) and e.func.id == "map" and len(e.args) == 2:
                r0 = refs.resolve(e.args[0]) if isinstance(e.args[0], (ast.Name, ast.Attribute)) else None
                return r0 in canon_names
        if isinstance(e, (ast.GeneratorExp, ast.ListComp)) and not any(g.ifs for g in e.generators):
            return is_canon_app(e.elt)
        return False

    # construction: the value stored under "__args__" (and used as the cache key) is canonicalised on every path
    from ..dataflow import Walker

    def ev(expr, env):
        if is_canon_app(expr):
            return frozenset({"canon"})
        if isinstance(expr, ast.Name):
            return env.get(expr.id, frozenset({"raw"}))
        if isinstance(expr, ast.Tuple) and len(expr.elts) == 1:
            return ev(expr.elts[0], env)
        return frozenset({"raw"})

    stored = {}

    def on_stmt(st, env):
        for n in ast.walk(st) if not isinstance(st, (ast.If, ast.Try, ast.For, ast.While, ast.With)) else []:
            if isinstance(n, ast.Dict):
                for k, v in zip(n.keys, n.values):
                    if isinstance(k, ast.Constant) and k.value == "__args__":
                        stored[n] = ev(v, env)
            if isinstance(n, ast.keyword) and n.arg == "__args__":
                stored[n] = ev(n.value, env)
            if isinstance(n, ast.Assign):
                for tg in n.targets:
                    if isinstance(tg, ast.Subscript) and isinstance(tg.slice, ast.Constant) and tg.slice.value == "__args__":
                        stored[n] = ev(n.value, env)
                    if isinstance(tg, ast.Attribute) and tg.attr == "__args__":
                        stored[n] = ev(n.value, env)

    Walker(gi.node, ev, on_stmt, init_env={p: frozenset({"raw"}) for p in gi.positional}).run()
    if not stored:
        raise AnalysisError("GenericTypeMeta.__getitem__ no longer stores `__args__` in a recognisable way")
    construction = all(v == frozenset({"canon"}) for v in stored.values())
    # comparison: both operands of the recursive parameter comparison canonicalised
    comps = [c for c in ast.walk(sc.node) if isinstance(c, ast.Call) and refs.resolve(c.func) == "funsor.typing.deep_issubclass" and len(c.args) == 2]
    comparison = bool(comps) and all(is_canon_app(c.args[0]) and is_canon_app(c.args[1]) for c in comps)
    col.check(construction or comparison, f"{gi.fq}::__args__ canonical",
              f"parameters are canonicalised {'when the parametrised class is built' if construction else ''}{' and ' if construction and comparison else ''}{'when parameters are compared' if comparison else ''}",
              "type parameters are neither canonicalised (object -> typing.Any) when a parametrised term class is built nor when parameters are compared: `T[..., object]` "
              "and `T[..., Any]` become different, incomparable patterns and tuple/frozenset-typed arguments are handed to issubclass(…, object)", gi.loc())
    col.ok(f"{canon[0].fq}::canonicaliser", f"canonicaliser located by role: {', '.join(sorted(canon_names))}", canon[0].loc(), nontrivial=False)
    # the dispatch-side wrapper canonicalises before wrapping
    rsm = prog.classes.get("funsor.typing._RuntimeSubclassCheckMeta")
    if rsm is not None and "__call__" in rsm.methods:
        m = rsm.methods["__call__"]
        uses = [c for c in ast.walk(m.node) if isinstance(c, ast.Call) and (refs.resolve(c.func) if isinstance(c.func, (ast.Name, ast.Attribute)) else None) in canon_names]
        subs = [n for n in ast.walk(m.node) if isinstance(n, ast.Subscript) and isinstance(n.value, ast.Name) and n.value.id == m.positional[0]]
        col.check(bool(uses) or construction, f"{m.fq}::canonical before wrapping", "typing_wrap(tp) canonicalises tp (directly or through cls[tp])",
                  "typing_wrap no longer canonicalises its argument and cls[tp] does not either", m.loc())


# ---------------------------------------------------------------------- R16.10
def _whole_pattern(prog: Program, col: Collector, refs: Refs):
    add = require_func(prog, "funsor.registry::PartialDispatcher.add")
    if len(add.positional) < 3:
        raise AnalysisError("PartialDispatcher.add no longer takes (self, signature, func)")
    sig, fn = add.positional[1], add.positional[2]
    tainted = {sig}
    for _ in range(5):
        before = len(tainted)
        for n in ast.walk(add.node):
            if isinstance(n, ast.Assign) and any(isinstance(x, ast.Name) and x.id in tainted for x in ast.walk(n.value)):
                for tg in n.targets:
                    for x in ast.walk(tg):
                        if isinstance(x, ast.Name):
                            tainted.add(x.id)
            if isinstance(n, (ast.comprehension, ast.For)) and any(isinstance(x, ast.Name) and x.id in tainted for x in ast.walk(n.iter)):
                for x in ast.walk(n.target):
                    if isinstance(x, ast.Name):
                        tainted.add(x.id)
        if len(tainted) == before:
            break
    # the annotation path rebinds `signature` from the rule's type hints: those names are patterns too
    drops = []
    for n in ast.walk(add.node):
        if isinstance(n, ast.Subscript) and isinstance(n.value, ast.Name) and n.value.id in tainted and isinstance(n.ctx, ast.Load):
            drops.append(n)
        if isinstance(n, ast.comprehension) and n.ifs and any(isinstance(x, ast.Name) and x.id in tainted for x in ast.walk(n.iter)):
            p = add.module.parent.get(n)
            # `any(isinstance(typ, tuple) for typ in signature)` style tests are not constructions; only flag filters in value position
            pp = add.module.parent.get(p)
            if not (isinstance(pp, ast.Call) and isinstance(pp.func, ast.Name) and pp.func.id in ("any", "all")):
                drops.append(n)
        if isinstance(n, ast.Call) and isinstance(n.func, ast.Name) and n.func.id in ("next", "min", "max", "set", "frozenset", "sorted") \
                and any(isinstance(x, ast.Name) and x.id in tainted for a in n.args for x in ast.walk(a)):
            drops.append(n)
    for d in drops:
        col.violation(f"{add.fq}::{norm(d)}", "the registered signature is built from part of the pattern (an element, slice, filter or unordered view): two different "
                      "patterns can collapse to one signature, and which rule runs then depends on registration order", add.loc(d))
    if not drops:
        col.ok(f"{add.fq}::pattern used whole", f"no subscript / filter / unordered view of the pattern ({', '.join(sorted(tainted))}) on the registration path", add.loc())
    supers = [c for c in ast.walk(add.node) if isinstance(c, ast.Call) and is_super_call(c, "add")]
    if not supers:
        raise AnalysisError("PartialDispatcher.add no longer calls super().add")
    for c in supers:
        good = len(c.args) == 2 and isinstance(c.args[0], ast.Name) and c.args[0].id in tainted and isinstance(c.args[1], ast.Name) and c.args[1].id == fn
        col.check(good, f"{add.fq}::{norm(c)}", "the signature derived from the pattern and the rule as passed are what is registered",
                  "super().add receives something other than (the signature derived from the pattern, the rule as passed)", add.loc(c))
    # the list -> Variadic adapter takes all element types
    for n in ast.walk(add.node):
        if isinstance(n, ast.Subscript) and refs.resolve(n.value) == "funsor.typing.Variadic" if isinstance(getattr(n, "value", None), (ast.Name, ast.Attribute)) else False:
            inner = n.slice
            names = [x for x in ast.walk(inner) if isinstance(x, ast.Name) and x.id in tainted]
            whole = bool(names) and not any(isinstance(add.module.parent.get(x), ast.Subscript) and add.module.parent.get(x).value is x for x in names)
            col.check(whole, f"{add.fq}::{norm(n)}", "a list pattern becomes Variadic over all its element types",
                      "a list pattern is turned into a Variadic over only part of its element types", add.loc(n))
    kr = require_func(prog, "funsor.registry::KeyedRegistry.register")
    va = kr.node.args.vararg.arg if kr.node.args.vararg else None
    fwd = [c for c in ast.walk(kr.node) if isinstance(c, ast.Call) and any(isinstance(a, ast.Starred) and isinstance(a.value, ast.Name) and a.value.id == va for a in c.args)]
    sub = [n for n in ast.walk(kr.node) if isinstance(n, ast.Subscript) and isinstance(n.value, ast.Name) and n.value.id == va]
    col.check(bool(fwd) and not sub and va is not None, f"{kr.fq}::*{va}", "all pattern types are forwarded to the per-class dispatcher",
              "KeyedRegistry.register does not forward all pattern types", kr.loc())


# ---------------------------------------------------------------------- R16.11
def _bare_candidate(prog: Program, col: Collector, refs: Refs, cat: Catalogue):
    """`Tuple` / `FrozenSet` without parameters stands for the container of anything.  In a per-origin handler the branch taken
    when the CANDIDATE has no parameters (and the pattern has some) may therefore only accept when the pattern's parameters are
    `typing.Any`: a constant True, or an extra disjunct (`... or cls_args[-1] is Ellipsis`), makes the bare container a subtype of
    `FrozenSet[str]` / `Tuple[int, ...]` and dispatch then prefers the narrower rule for arguments it does not fit."""
    funcs = _oracle_functions(prog, refs, cat)
    n = 0
    for f, sides in funcs:
        sub_p = [k for k, v in sides.items() if v == SUB]
        cls_p = [k for k, v in sides.items() if v == CLS]
        if not sub_p or not cls_p:
            continue
        # names holding get_args(<side>)
        args_of = {}
        for st in walk_no_nested(f.node):
            if isinstance(st, ast.Assign):
                pairs = []
                for tg in st.targets:
                    if isinstance(tg, (ast.Tuple, ast.List)) and isinstance(st.value, (ast.Tuple, ast.List)) and len(tg.elts) == len(st.value.elts):
                        pairs += list(zip(tg.elts, st.value.elts))
                    else:
                        pairs.append((tg, st.value))
                for tg, v in pairs:
                    if isinstance(tg, ast.Name) and isinstance(v, ast.Call) and refs.resolve(v.func) == "funsor.typing.get_args" and len(v.args) == 1 and isinstance(v.args[0], ast.Name):
                        if v.args[0].id in sub_p:
                            args_of[tg.id] = SUB
                        elif v.args[0].id in cls_p:
                            args_of[tg.id] = CLS
        sub_args = {k for k, v in args_of.items() if v == SUB}
        cls_args = {k for k, v in args_of.items() if v == CLS}
        if not sub_args:
            continue

        def is_any_test(e) -> bool:
            if isinstance(e, ast.Compare) and len(e.ops) == 1 and isinstance(e.ops[0], ast.Is) and refs.resolve(e.comparators[0]) == "typing.Any":
                return any(isinstance(x, ast.Name) and x.id in cls_args for x in ast.walk(e.left))
            if isinstance(e, ast.BoolOp) and isinstance(e.op, ast.And):
                return all(is_any_test(v) for v in e.values)
            if isinstance(e, ast.Call) and isinstance(e.func, ast.Name) and e.func.id == "all" and len(e.args) == 1 and isinstance(e.args[0], (ast.GeneratorExp, ast.ListComp)):
                g = e.args[0]
                return isinstance(g.elt, ast.Compare) and len(g.elt.ops) == 1 and isinstance(g.elt.ops[0], ast.Is) and refs.resolve(g.elt.comparators[0]) == "typing.Any" \
                    and isinstance(g.generators[0].iter, ast.Name) and g.generators[0].iter.id in cls_args
            if isinstance(e, ast.Constant) and e.value is False:
                return True
            return False

        for node in walk_no_nested(f.node):
            if not isinstance(node, ast.If):
                continue
            test, negated = node.test, False
            while isinstance(test, ast.UnaryOp) and isinstance(test.op, ast.Not):
                test, negated = test.operand, not negated
            if not (isinstance(test, ast.Name) and test.id in sub_args):
                continue
            # the region in which the candidate has NO parameters
            region = node.body if negated else node.orelse
            if not region and not negated and node.body and isinstance(node.body[-1], (ast.Return, ast.Raise)):
                par = f.module.parent.get(node)
                for fld in ("body", "orelse"):
                    b = getattr(par, fld, None)
                    if isinstance(b, list) and any(x is node for x in b):
                        k = [i_ for i_, x in enumerate(b) if x is node][0]
                        region = b[k + 1:]
            for st in region:
                if isinstance(st, ast.Return) and st.value is not None:
                    n += 1
                    col.check(is_any_test(st.value), f"{f.fq}::bare candidate",
                              "a candidate without parameters is accepted only when the pattern's parameter is typing.Any",
                              f"when the candidate has no parameters the handler returns `{norm(st.value)}`: the bare container (= container of anything) is accepted by a "
                              "parametrised pattern other than <Any>", f.loc(st))
                    break
        # ... and that branch comes FIRST: a verdict that quantifies over the candidate's parameters (all(... for a in sub_args), zip)
        # is vacuously true for the bare container, so every such return must be dominated by the emptiness test
        from ..cfg import CFG
        cfg = CFG(f.node)
        empties = []
        for node in walk_no_nested(f.node):
            if isinstance(node, ast.If):
                t_, neg_ = node.test, False
                while isinstance(t_, ast.UnaryOp) and isinstance(t_.op, ast.Not):
                    t_, neg_ = t_.operand, not neg_
                if isinstance(t_, ast.Name) and t_.id in sub_args and neg_ and node.body and isinstance(node.body[-1], (ast.Return, ast.Raise)):
                    empties.append(node)
                # `if len(cls_args) != len(sub_args): return ...` pins the number of parameters for what follows
                elif node.body and isinstance(node.body[-1], (ast.Return, ast.Raise)) and any(
                        isinstance(y, ast.Call) and isinstance(y.func, ast.Name) and y.func.id == "len" and y.args and isinstance(y.args[0], ast.Name) and y.args[0].id in sub_args
                        for y in ast.walk(node.test)):
                    empties.append(node)
        for r_ in [x for x in walk_no_nested(f.node) if isinstance(x, ast.Return) and x.value is not None]:
            quant = [g for g in ast.walk(r_.value) if isinstance(g, (ast.GeneratorExp, ast.ListComp)) and any(
                isinstance(y, ast.Name) and y.id in sub_args for gen in g.generators for y in ast.walk(gen.iter))]
            if not quant or not any(isinstance(c_, ast.Call) and isinstance(c_.func, ast.Name) and c_.func.id == "all" for c_ in ast.walk(r_.value)):
                continue
            # `len(sub_args) == len(cls_args) == k and all(...)` pins the number of parameters: not vacuous
            pinned = any(isinstance(c_, ast.Compare) and any(isinstance(y, ast.Call) and isinstance(y.func, ast.Name) and y.func.id == "len" and y.args
                                                              and isinstance(y.args[0], ast.Name) and y.args[0].id in sub_args for y in ast.walk(c_))
                         for c_ in ast.walk(r_.value))
            dominated = any(cfg.dominates(a, b) for e_ in empties for a in cfg.nodes_for(e_) for b in cfg.nodes_for(r_))
            n2 = f"{f.fq}::{norm(r_)[:60]}"
            col.check(pinned or dominated, n2, "reached only after the candidate was found to have parameters (or its length is pinned)",
                      f"`{norm(r_.value)[:60]}` quantifies over the candidate's parameters and can be reached with a candidate that has none (the bare container): all([]) is "
                      "True, so tuple / Tuple becomes a subtype of every Tuple[X, ...] and the relation is no longer transitive (Tuple[str] <= tuple <= Tuple[int, ...])", f.loc(r_))
    if n < 2:
        raise AnalysisError(f"only {n} bare-candidate branch(es) found in the per-origin handlers (anchors: _subclasscheck_tuple, _subclasscheck_frozenset)")


# ---------------------------------------------------------------------- R16.12
def _deep_type_not_memoised(prog: Program, col: Collector, refs: Refs):
    """deep_type maps a VALUE to its precise type, and dispatch matches that type.  functools.lru_cache / cache key their table by
    equality and hash of the arguments, and Python's numbers are equal across types (1 == 1.0 == True, frozenset({2, 3}) ==
    frozenset({2.0, 3.0})): a memoised deep_type answers with the type of whichever equal value was seen first, so the rule chosen
    depends on earlier dispatches.  (deep_issubclass is memoised on TYPES, which is fine.)"""
    root = prog.funcs.get("funsor.typing::deep_type")
    if root is None:
        raise AnalysisError("anchor funsor.typing.deep_type not found")
    handlers = [root]
    for f in prog.functions_in(root.module):
        for d in f.decorators:
            if isinstance(d, ast.Call) and isinstance(d.func, ast.Attribute) and d.func.attr == "register" and norm(d.func.value) == "deep_type":
                handlers.append(f)
    for f in handlers:
        memo = [d for d in f.decorators if (refs.resolve(d.func if isinstance(d, ast.Call) else d) or norm(d.func if isinstance(d, ast.Call) else d)).rsplit(".", 1)[-1]
                in ("lru_cache", "cache", "memoize", "cached")]
        col.check(not memo, f"{f.fq}::not memoised", "computed afresh from the value on every call",
                  f"`{f.name}` is wrapped in `{norm(memo[0]) if memo else ''}`: the memo is keyed by == / hash of the value, and equal values of different types (1, 1.0, True; "
                  "frozensets of them) share an entry, so deep_type returns the type of the first one seen and dispatch depends on history", f.loc())


def _oracle_handlers_do_not_decide(prog: Program, col: Collector, refs: Refs, cat: Catalogue):
    """issubclass() raises TypeError when the candidate is a typing object (Tuple[...], FrozenSet[...]) rather than a class; KeyError
    signals a missing table entry.  Neither means 'not a subtype': the handler has to retry with a class (the origin) / fall back to
    the plain relation, or re-raise.  A handler that returns False (or True) turns a representation accident into a verdict, and
    the relation stops agreeing with instance membership (a tuple is a Sequence, Tuple[int] suddenly is not)."""
    funcs = [f for f, _ in _oracle_functions(prog, refs, cat)]
    di = prog.funcs.get("funsor.typing::deep_isinstance")
    if di is not None:
        funcs.append(di)
    n = 0
    for f in funcs:
        for h in [x for x in ast.walk(f.node) if isinstance(x, ast.ExceptHandler)]:
            n += 1
            consts = [r for st in h.body for r in ast.walk(st) if isinstance(r, ast.Return) and isinstance(r.value, ast.Constant) and isinstance(r.value.value, bool)]
            asks = [r for st in h.body for r in ast.walk(st) if isinstance(r, (ast.Return, ast.Raise))]
            col.check(not consts and bool(asks), f"{f.fq}::except {norm(h.type) if h.type is not None else ''}",
                      "the handler re-raises or answers by asking the relation again (origin class / plain issubclass / isinstance)",
                      f"the handler answers `{norm(consts[0]) if consts else 'nothing'}`: an error that only says the candidate is not a plain class (or has no table entry) becomes a "
                      "verdict, so e.g. Tuple[int] is no longer below Sequence / Hashable although every tuple is an instance of them", f.loc(h))
    col.cur.analysed["oracle_exception_handlers"] = n


def _op_call_dispatches(prog: Program, col: Collector, refs: Refs):
    """Op.__call__ picks the implementation with `cls.dispatcher.partial_call(*operands)` and applies it.  Every definition of the
    applied function that can reach the application must be that dispatch: a shortcut for some operand types (call cls.default for
    plain ints and floats, say) skips rules registered for those very types, so the rule that runs is not the most specific one."""
    from ..cfg import CFG
    from .algebra import _reaching_closure
    f = require_func(prog, "funsor.ops.op::Op.__call__")
    cfg = CFG(f.node)
    vararg = f.node.args.vararg.arg if f.node.args.vararg else None
    n = 0
    for c in walk_no_nested(f.node):
        if not (isinstance(c, ast.Call) and isinstance(c.func, ast.Name) and any(isinstance(a, ast.Starred) and isinstance(a.value, ast.Name) for a in c.args)):
            continue  # an application to all the operands: f(*args, ...)
        if c.func.id in ("isinstance", "len", "tuple", "list", "print", "super"):
            continue
        st = c
        while not isinstance(st, ast.stmt):
            st = f.module.parent.get(st)
        closure = _reaching_closure(f, c.func, st, cfg)
        defs = [e for e in closure[1:] if not isinstance(e, ast.Name)]
        # direct definitions of the called name only (first level): assignments `fn = ...`
        direct = []
        for d in walk_no_nested(f.node):
            if isinstance(d, ast.Assign) and any(isinstance(t, ast.Name) and t.id == c.func.id for t in d.targets):
                direct.append(d.value)
        if not direct:
            continue
        n += 1
        bad = [d for d in direct if not (isinstance(d, ast.Call) and isinstance(d.func, ast.Attribute) and d.func.attr in ("partial_call", "dispatch")
                                         and "dispatcher" in norm(d.func.value))]
        col.check(not bad, f"{f.fq}::{norm(c)[:50]}", f"`{c.func.id}` is always the result of dispatcher.partial_call on the operands",
                  f"`{c.func.id}` may be `{norm(bad[0])[:50]}` - not the dispatcher's choice: rules registered for the operand types that take this shortcut never run, so "
                  "the implementation that runs is not the most specific registered one (and differs from what dispatcher.partial_call reports)" if bad else "", f.loc(c))
    col.cur.analysed["op_applications"] = n


def _memo_invalidated(prog: Program, col: Collector, pc: Func, attrs):
    """The memo of dispatch decisions must be dropped when a pattern is registered: otherwise a decision taken earlier (in particular
    'no rule of this partial interpretation matches - fall through to the enclosing one') outlives the registration of a matching
    rule, and which rule runs depends on what was dispatched before.  Either the memo is the `_cache` of multipledispatch's Dispatcher,
    which Dispatcher.add() clears (checked in the installed library source), or the class's own add / register clears it."""
    import importlib.util
    import os
    cls = pc.cls
    for attr in attrs:
        construct = f"{pc.fq}::self.{attr} invalidated on registration"
        own = []
        for mname in ("add", "register", "_add"):
            m = cls.methods.get(mname) if cls is not None else None
            if m is None:
                continue
            for x in ast.walk(m.node):
                if isinstance(x, ast.Call) and isinstance(x.func, ast.Attribute) and x.func.attr == "clear" and norm(x.func.value) == f"{m.positional[0]}.{attr}":
                    own.append(x)
                if isinstance(x, ast.Assign) and any(norm(t) == f"{m.positional[0]}.{attr}" for t in x.targets):
                    own.append(x)
        if own:
            col.ok(construct, f"`{attr}` is cleared by the class's own registration method", pc.loc())
            continue
        inherited = False
        if attr == "_cache":
            try:
                spec = importlib.util.find_spec("multipledispatch.dispatcher")
                src = open(spec.origin, encoding="utf-8").read() if spec and spec.origin and os.path.exists(spec.origin) else None
            except Exception:
                src = None
            if src is None:
                col.unresolved(construct, "source of multipledispatch.dispatcher not found: cannot confirm that Dispatcher.add clears _cache", pc.loc())
                continue
            tree = ast.parse(src)
            for c in [n for n in tree.body if isinstance(n, ast.ClassDef) and n.name == "Dispatcher"]:
                for m in [n for n in c.body if isinstance(n, ast.FunctionDef) and n.name == "add"]:
                    if any(isinstance(x, ast.Call) and isinstance(x.func, ast.Attribute) and x.func.attr == "clear" and norm(x.func.value) == "self._cache" for x in ast.walk(m)):
                        inherited = True
        col.check(inherited, construct, "`_cache` is the memo of multipledispatch.Dispatcher, which Dispatcher.add() clears (installed source read)",
                  f"dispatch decisions are memoised in `self.{attr}`, which no registration method clears: a decision taken before a rule is registered (e.g. 'no rule here, fall through "
                  "to the enclosing interpretation') stays in force afterwards, so the rule that runs depends on earlier dispatches", pc.loc())


def _per_class_state(prog: Program, col: Collector, refs: Refs, cat: Catalogue):
    """(a) A table a metaclass creates for each class (`cls._type_cache = WeakValueDictionary()`, `cls._instance_cache = ...`) must be
    created for the class itself: guarding the creation with hasattr / getattr, which also see inherited attributes, makes every
    subclass share its base's table (Align[X] and Subs[X] become one class, whichever is made first).
    (b) A metaclass that resets a per-class list of registered patterns and then copies the ancestors' entries must walk the whole
    MRO: copying from the direct bases only loses the patterns of grandparents, so which rule runs depends on where in the
    hierarchy (and when) an op class was created."""
    n = 0
    for c in prog.classes.values():
        if not (any(b in ("type", "builtins.type") or b.endswith("Meta") for b in c.bases) or c.name.endswith("Meta")):
            continue
        init = c.methods.get("__init__")
        if init is None or not init.positional:
            continue
        clsn = init.positional[0]
        own_lists = set()
        for st in walk_no_nested(init.node):
            if not (isinstance(st, ast.Assign) and len(st.targets) == 1):
                continue
            t = st.targets[0]
            if not (isinstance(t, ast.Attribute) and isinstance(t.value, ast.Name) and t.value.id == clsn):
                continue
            v = st.value
            container = isinstance(v, (ast.Dict, ast.List, ast.Set)) or (isinstance(v, ast.Call) and not v.args and (
                (refs.resolve(v.func) or norm(v.func)).rsplit(".", 1)[-1] in ("WeakValueDictionary", "WeakKeyDictionary", "dict", "list", "set", "OrderedDict", "defaultdict")))
            if not container:
                continue
            n += 1
            if isinstance(v, ast.List) or (isinstance(v, ast.Call) and norm(v.func).endswith("list")):
                own_lists.add(t.attr)
            guards = [a for a in init.module.ancestors(st) if isinstance(a, ast.If) and init.module.enclosing_function(a) is init.node]
            inherited_test = None
            for g in guards:
                for x in ast.walk(g.test):
                    if isinstance(x, ast.Call) and isinstance(x.func, ast.Name) and x.func.id in ("hasattr", "getattr") and len(x.args) >= 2 \
                            and norm(x.args[0]) == clsn and isinstance(x.args[1], ast.Constant) and x.args[1].value == t.attr:
                        inherited_test = x
            col.check(inherited_test is None, f"{init.fq}::{clsn}.{t.attr}", f"every class gets its own `{t.attr}`",
                      f"`{clsn}.{t.attr}` is created only when `{norm(inherited_test) if inherited_test else ''}` fails, and that test also sees the attribute inherited from a base class: "
                      "subclasses share the base's table instead of getting their own", init.loc(st))
        # (b)
        for lp in [x for x in walk_no_nested(init.node) if isinstance(x, ast.For) and isinstance(x.target, ast.Name)]:
            reads = [x for x in ast.walk(lp) if (isinstance(x, ast.Call) and isinstance(x.func, ast.Name) and x.func.id == "getattr" and len(x.args) >= 2
                                                   and norm(x.args[0]) == lp.target.id and isinstance(x.args[1], ast.Constant) and x.args[1].value in own_lists)
                     or (isinstance(x, ast.Attribute) and isinstance(x.value, ast.Name) and x.value.id == lp.target.id and x.attr in own_lists)]
            if not reads:
                continue
            n += 1
            it = lp.iter
            while isinstance(it, ast.Call) and isinstance(it.func, ast.Name) and it.func.id in ("reversed", "list", "tuple") and len(it.args) == 1:
                it = it.args[0]
            whole = (isinstance(it, ast.Call) and ((refs.resolve(it.func) or "") == "inspect.getmro" or (isinstance(it.func, ast.Attribute) and it.func.attr == "mro"))) \
                or (isinstance(it, ast.Attribute) and it.attr == "__mro__")
            col.check(whole, f"{init.fq}::for {lp.target.id} in {norm(lp.iter)}", "inherited patterns are collected from the whole MRO",
                      f"the ancestors' registered patterns are copied from `{norm(lp.iter)}` only; each class keeps only its own entries, so patterns registered with a grandparent "
                      "class are lost for classes created later (the default rule then runs although a more specific registered pattern matches)", init.loc(lp))
    col.cur.analysed["metaclass_state_sites"] = n
