"""C17 - interpretation contexts nest and unwind like a stack.

Rules R17.1 - R17.9 of DESIGN.md section 4.  All decisions are made on the AST / CFG of the
current source; nothing is executed.
"""
from __future__ import annotations

import ast
from typing import List, Optional, Set, Tuple

from ..cfg import CFG, describe_path, PathLimit
from ..model import AnalysisError, Func, Module, Program, dotted, local_names, norm
from ..report import Collector
from .common import Refs, enclosing_stmt, func_label, is_super_call, walk_no_nested

STACK = "funsor.interpreter._STACK"
INTERP = "funsor.interpretations.Interpretation"
MUTATING_LIST_METHODS = {"append", "extend", "insert", "pop", "remove", "clear", "sort", "reverse", "__setitem__",
                         "__delitem__", "__iadd__", "__imul__"}
PURE_LIST_METHODS = {"index", "count", "copy", "__len__", "__getitem__", "__iter__", "__contains__"}
PURE_BUILTINS = {"builtins.len", "builtins.list", "builtins.tuple", "builtins.reversed", "builtins.enumerate",
                 "builtins.bool", "builtins.repr", "builtins.str", "builtins.iter"}

EXPLANATION = (
    "Static decision of the stack discipline of funsor interpretations. Parsed every module of funsor/ (thorough: also "
    "test/, examples/, scripts/ as clients). R17.1 enumerates every access to funsor.interpreter._STACK through any "
    "alias and classifies it as writer/reader/escape; R17.2 resolves every reference to the push/pop functions; R17.3/"
    "R17.4 enumerate all CFG paths (normal and exceptional) of Interpretation.__enter__/__exit__ and of every override "
    "and count push/pop effects per path; R17.5 checks the layering order (wrapper arguments, order-preserving "
    "flattening, first-non-None front-to-back dispatch); R17.6/R17.7 check that interpretations are entered only via "
    "with/decorator and that no plain generator suspends inside an interpretation context; R17.9 checks that dispatch "
    "reads the top of the stack. Given these facts Python's with/ContextDecorator protocol implies by induction on "
    "nesting depth that after a well-nested sequence the stack equals the one before the matching entry."
    ' Added since: R17.1 locates the push/pop primitives by role and judges their shape; R17.5 judges transformations of the flattened layer tuple as a pipeline (reversals cancel, de-duplication keeps the innermost copy).'
    ' Round 4: R17.10 named interpretations are flattened to atomic layers; a rule of a partial layer P may call T.interpret only for reflect, a partial T, or a total T whose layers lie in a declared layering that contains P.'
)
ASSUMPTIONS = [
    "Python's `with` statement and contextlib.ContextDecorator call __exit__ exactly once for every __enter__ that returned",
    "client code enters interpretations only through `with`/decorator (R17.6 checks the library and, in the thorough tier, test/ and examples/)",
    "list.append/list.pop have their documented LIFO semantics",
]
RULE_TEXT = ("one obligation per stack access / push-pop reference / CFG path of a protocol method / with-site / generator; "
             "non-trivial = the obligation required resolving an alias, enumerating a path or classifying a context expression")


def _mutation_kind(mod: Module, node: ast.AST, refs: Refs) -> Tuple[str, str]:
    """Classify the syntactic context of an occurrence `node` of the stack object.
    Returns (kind, description) with kind in write|read|escape."""
    p = mod.parent.get(node)
    if isinstance(node, (ast.Name, ast.Attribute)) and isinstance(getattr(node, "ctx", None), (ast.Store, ast.Del)):
        return "write", "rebinding/deleting the stack variable"
    if isinstance(p, ast.Attribute) and p.value is node:
        pp = mod.parent.get(p)
        if isinstance(pp, ast.Call) and pp.func is p:
            if p.attr in MUTATING_LIST_METHODS:
                return "write", f"call of mutating method .{p.attr}()"
            if p.attr in PURE_LIST_METHODS:
                return "read", f"call of pure method .{p.attr}()"
            return "escape", f"call of unknown method .{p.attr}()"
        return "escape", f"attribute .{p.attr} taken (bound method may escape)"
    if isinstance(p, ast.Subscript) and p.value is node:
        if isinstance(p.ctx, (ast.Store, ast.Del)):
            return "write", "subscript store/delete"
        return "read", "subscript load"
    if isinstance(p, ast.AugAssign) and p.target is node:
        return "write", "augmented assignment"
    if isinstance(p, ast.Call) and node in p.args:
        callee = refs.resolve(p.func)
        if callee in PURE_BUILTINS:
            return "read", f"argument of pure builtin {callee}"
        return "escape", f"passed as argument to {norm(p.func)}"
    if isinstance(p, (ast.For, ast.comprehension)) and p.iter is node:
        return "read", "iterated"
    if isinstance(p, ast.Compare):
        return "read", "compared"
    if isinstance(p, (ast.If, ast.While, ast.IfExp, ast.BoolOp, ast.UnaryOp, ast.Assert)):
        return "read", "truth-tested"
    if isinstance(p, ast.Global):
        return "read", "global declaration"
    return "escape", f"used in {type(p).__name__} (alias/return/container)"


def _stack_accesses(prog: Program, refs: Refs, include_extra: bool):
    out = []
    for mod, node in refs.to(STACK):
        # imports are not accesses
        out.append((mod, node))
    return out


def run(prog: Program, col: Collector, tier: str, refs: Optional[Refs] = None):
    thorough = tier == "thorough"
    refs = refs or Refs(prog, include_extra=thorough)
    interp_mod = prog.modules.get("funsor.interpreter")
    if interp_mod is None:
        raise AnalysisError("module funsor.interpreter not found")
    if "_STACK" not in interp_mod.bindings:
        raise AnalysisError("anchor funsor.interpreter._STACK not found")

    # ------------------------------------------------------------------ R17.1
    col.rule("R17.1", "who may write the interpretation stack", floor=8)
    writers = []
    pushers: Set[str] = set()
    poppers: Set[str] = set()
    init_assigns = [b for b in interp_mod.bindings["_STACK"]]
    for b in init_assigns:
        ok = b.kind == "assign" and isinstance(b.value, ast.List) and not b.value.elts and not b.guarded
        col.check(ok and len(init_assigns) == 1, f"funsor.interpreter::<module>::{norm(b.node)}",
                  "the stack is created once, empty, unconditionally",
                  "the stack variable is (re)bound at module level other than by one `_STACK = []`", interp_mod.loc(b.node))
    for mod, node in _stack_accesses(prog, refs, thorough):
        if isinstance(getattr(node, "ctx", None), ast.Store) and mod is interp_mod and mod.enclosing_function(node) is None:
            continue  # the module-level initialisation handled above
        kind, desc = _mutation_kind(mod, node, refs)
        where = func_label(prog, mod, node)
        st = enclosing_stmt(mod, node)
        construct = f"{where}::{norm(st)}"
        if kind == "read":
            col.ok(construct, f"read-only access ({desc})", mod.loc(node), nontrivial=mod is not interp_mod)
            continue
        if kind == "escape":
            col.violation(construct, f"the stack object escapes: {desc}; only push_interpretation/pop_interpretation may hold it", mod.loc(node))
            continue
        # a write: must be the append(param) of the pusher or the argument-less pop() of the popper
        p = mod.parent.get(node)
        call = mod.parent.get(p) if isinstance(p, ast.Attribute) else None
        fnode = mod.enclosing_function(node)
        f = prog.func_of(fnode) if fnode is not None else None
        good = False
        why = f"write to the interpretation stack outside the push/pop primitives: {desc}"
        if mod is interp_mod and f is not None and f.parent is None and f.cls is None and isinstance(call, ast.Call):
            # the primitive is located by ROLE (a top-level function of funsor.interpreter that grows / shrinks the stack);
            # whether it grows / shrinks it at the TOP is the obligation
            if p.attr in ("append", "insert", "extend", "__iadd__"):
                pushers.add(f.fq)
                writers.append(("push", f, call))
                if p.attr == "append" and len(call.args) == 1 and not call.keywords and isinstance(call.args[0], ast.Name) \
                        and call.args[0].id in f.positional:
                    # the parameter must not be reassigned before the append
                    stores = [n for n in walk_no_nested(f.node) if isinstance(n, ast.Name) and n.id == call.args[0].id and isinstance(n.ctx, ast.Store)]
                    good = not stores
                    if stores:
                        why = "the value appended is not the parameter as passed (it is reassigned inside the push primitive)"
                else:
                    why = f"the push primitive does not append its parameter on top of the stack: {norm(call)}"
            elif p.attr in ("pop", "remove", "clear"):
                poppers.add(f.fq)
                writers.append(("pop", f, call))
                good = p.attr == "pop" and not call.args and not call.keywords
                if not good:
                    why = f"the pop primitive does not remove exactly the top of the stack: {norm(call)}"
        col.check(good, construct, f"sanctioned writer ({desc})", why, mod.loc(node))
    # reflective access by name
    for mod in prog.all_modules(thorough):
        for n in ast.walk(mod.tree):
            if isinstance(n, ast.Constant) and n.value == "_STACK":
                col.violation(f"{func_label(prog, mod, n)}::{norm(enclosing_stmt(mod, n))}",
                              "reflective access to the stack by name (getattr/setattr/globals)", mod.loc(n))
    n_push_sites = len([w for w in writers if w[0] == "push"])
    n_pop_sites = len([w for w in writers if w[0] == "pop"])
    if len(pushers) != 1 or len(poppers) != 1 or n_push_sites != 1 or n_pop_sites != 1:
        if not pushers or not poppers:
            raise AnalysisError(f"cannot locate the push/pop primitives by role (pushers={sorted(pushers)}, poppers={sorted(poppers)})")
        col.violation("funsor.interpreter::<module>::push/pop primitives",
                      f"expected exactly one append site and one pop site, found push={n_push_sites} in {sorted(pushers)}, pop={n_pop_sites} in {sorted(poppers)}",
                      interp_mod.rel)
    push_fq, pop_fq = sorted(pushers)[0], sorted(poppers)[0]
    push_f, pop_f = prog.funcs[push_fq], prog.funcs[pop_fq]
    # the primitives do nothing else to the stack and have straight-line bodies
    for f, what in ((push_f, "push"), (pop_f, "pop")):
        effects = [n for n in walk_no_nested(f.node) if isinstance(n, (ast.If, ast.For, ast.While, ast.Try, ast.With))]
        col.check(not effects, f"{f.fq}::straight-line body", f"the {what} primitive is unconditional",
                  f"the {what} primitive contains control flow ({', '.join(type(e).__name__ for e in effects)}): the effect is conditional", f.loc())
    push_name = f"funsor.interpreter.{push_f.name}"
    pop_name = f"funsor.interpreter.{pop_f.name}"

    # ------------------------------------------------------------------ R17.9 readers read the top
    col.rule("R17.9", "dispatch reads the top of the stack", floor=5)
    top_getters = []
    for f in prog.functions_in(interp_mod):
        reads = []
        for n in walk_no_nested(f.node):
            if isinstance(n, ast.Subscript) and refs.resolve(n.value) == STACK and isinstance(n.ctx, ast.Load):
                reads.append(n)
        if not reads:
            continue
        nontop_names = set()
        for n in walk_no_nested(f.node):
            if isinstance(n, ast.Assign) and len(n.targets) == 1 and isinstance(n.targets[0], ast.Name):
                for s in ast.walk(n.value):
                    if s in reads and not _is_minus_one(s.slice):
                        nontop_names.add(n.targets[0].id)
        for r in [n for n in walk_no_nested(f.node) if isinstance(n, ast.Return) and n.value is not None]:
            bad = [s for s in ast.walk(r.value) if (s in reads and not _is_minus_one(s.slice)) or (isinstance(s, ast.Name) and s.id in nontop_names)]
            uses_stack = [s for s in ast.walk(r.value) if s in reads] or any(isinstance(s, ast.Name) and _name_from_top(f, s.id, reads) for s in ast.walk(r.value))
            if bad:
                col.violation(f"{f.fq}::{norm(r)}", "the value returned is derived from a stack slot other than the top (_STACK[-1])", f.loc(r))
            elif uses_stack:
                col.ok(f"{f.fq}::{norm(r)}", "returned value derives from _STACK[-1] only", f.loc(r))
        for s in reads:
            if not _is_minus_one(s.slice):
                col.note(f"{f.fq}::{norm(enclosing_stmt(interp_mod, s))}", "non-top read (allowed when not flowing to the result)", f.loc(s))
        if len(f.body) == 1 and isinstance(f.body[0], ast.Return) and f.body[0].value in reads and _is_minus_one(f.body[0].value.slice) and f.cls is None:
            top_getters.append(f)
    if not top_getters:
        raise AnalysisError("cannot locate get_interpretation by role (a function returning _STACK[-1])")
    getter_names = {f"funsor.interpreter.{f.name}" for f in top_getters}

    # ------------------------------------------------------------------ R17.2
    col.rule("R17.2", "who may call push/pop", floor=4)
    base = prog.classes.get(INTERP)
    if base is None:
        raise AnalysisError(f"anchor class {INTERP} not found")
    enter = base.methods.get("__enter__")
    exit_ = base.methods.get("__exit__")
    if enter is None or exit_ is None:
        raise AnalysisError("Interpretation.__enter__/__exit__ not found")
    toplevel_pushes = []
    for name, what in ((push_name, "push"), (pop_name, "pop")):
        for mod, node in refs.to(name):
            p = mod.parent.get(node)
            if isinstance(getattr(node, "ctx", None), ast.Store):
                continue
            fnode = mod.enclosing_function(node)
            where = func_label(prog, mod, node)
            st = enclosing_stmt(mod, node)
            construct = f"{where}::{norm(st)}"
            if not (isinstance(p, ast.Call) and p.func is node):
                if isinstance(st, (ast.FunctionDef,)) and fnode is None:
                    continue
                col.violation(construct, f"the {what} primitive is used as a value (aliased / passed on) - unstructured entry becomes possible", mod.loc(node))
                continue
            if fnode is None:
                if what == "push" and mod.name == "funsor.interpretations":
                    toplevel_pushes.append((mod, p, st))
                    continue
                col.violation(construct, f"module-level {what} outside the base-stack initialisation in funsor.interpretations", mod.loc(node))
                continue
            f = prog.func_of(fnode)
            if f is enter and what == "push":
                col.ok(construct, "push inside Interpretation.__enter__", mod.loc(node))
            elif f is exit_ and what == "pop":
                col.ok(construct, "pop inside Interpretation.__exit__", mod.loc(node))
            else:
                # structured use: push(x); try: ... finally: pop()
                if _structured_push_pop(mod, p, what, refs, push_name, pop_name):
                    col.ok(construct, f"{what} in the structured form push; try: ...; finally: pop", mod.loc(node))
                else:
                    col.violation(construct, f"{what} primitive called outside Interpretation.__enter__/__exit__ and not in the form `push(x); try: ... finally: pop()`", mod.loc(node))
    # base stack: reflect then eager, unconditional
    tl = sorted(toplevel_pushes, key=lambda t: t[1].lineno)
    names = [norm(c.args[0]) if c.args else "?" for _, c, _ in tl]
    guarded = [st for mod, c, st in tl if mod.parent.get(st) is not mod.tree]
    col.check(names == ["reflect", "eager"] and not guarded, "funsor.interpretations::<module>::base stack",
              "module initialisation pushes reflect then eager, unconditionally, and never pops",
              f"base stack initialisation is {names}{' (conditional)' if guarded else ''}; expected exactly [reflect, eager] so that the default is eager and slot 0 is reflect",
              tl[0][0].loc(tl[0][1]) if tl else "funsor/interpretations.py")
    # `eager` itself: a layered interpretation ending in a total one (reflect)
    _check_default_is_eager(prog, col)

    # ------------------------------------------------------------------ R17.3
    col.rule("R17.3", "push/pop pairing on every path of Interpretation.__enter__/__exit__", floor=2)
    is_push = lambda n: _calls(n, refs, {push_name})
    is_pop = lambda n: _calls(n, refs, {pop_name})
    _check_effect_paths(col, enter, is_push, "push", expect_on_raise="zero-before")
    _check_effect_paths(col, exit_, is_pop, "pop", expect_on_raise="one")
    # __exit__ must not swallow exceptions silently in a way that hides a missing pop: report truthy returns as a note
    for r in [n for n in walk_no_nested(exit_.node) if isinstance(n, ast.Return) and n.value is not None]:
        if not (isinstance(r.value, ast.Constant) and not r.value.value):
            col.note(f"{exit_.fq}::{norm(r)}", "__exit__ returns a value; a truthy value swallows the exception (does not affect the stack)", exit_.loc(r))
    # what is pushed
    pushed = [c for c in ast.walk(enter.node) if isinstance(c, ast.Call) and refs.resolve(c.func) == push_name]
    pvals = _pushed_values(enter, pushed, refs, getter_names)
    for c in pushed:
        vals = pvals.get(c, frozenset({("other", "unreachable push")}))
        bad = [v for v in vals if v[0] not in ("self", "layer")]
        col.check(not bad, f"{enter.fq}::pushed value", f"pushed value is self or Prioritized(self, current): {_fmt(vals)}",
                  f"the value pushed on entry is not the entering interpretation (or its layering over the current one): {_fmt(vals)}", enter.loc(c))

    # ------------------------------------------------------------------ R17.4 overrides
    col.rule("R17.4", "overrides of __enter__/__exit__ in Interpretation subclasses funnel into the base exactly once", floor=11)
    subs = prog.subclasses(INTERP)
    col.cur.analysed["interpretation_classes"] = [c.fq for c in subs]
    for c in subs:
        for hook in ("__enter__", "__exit__"):
            if hook in c.attrs:
                col.violation(f"{c.fq}::{hook} = ...", f"{hook} is replaced by a class-level assignment; cannot be the stack protocol", c.module.loc(c.attrs[hook]))
        for forbidden in ("__call__", "_recreate_cm", "__aenter__", "__aexit__"):
            if forbidden in c.methods and forbidden != "__call__":
                col.violation(f"{c.fq}::{forbidden}", f"override of {forbidden} changes how the decorator/with form enters the context", c.methods[forbidden].loc())
            if forbidden == "__call__" and forbidden in c.methods:
                col.violation(f"{c.fq}::__call__", "override of ContextDecorator.__call__: the decorator form no longer goes through with self._recreate_cm()", c.methods[forbidden].loc())
        ov_enter = c.methods.get("__enter__")
        ov_exit = c.methods.get("__exit__")
        if ov_enter is None and ov_exit is None:
            col.ok(f"{c.fq}::inherits __enter__/__exit__", "no override", c.module.loc(c.node), nontrivial=False)
        if ov_enter is not None:
            tgt = prog.find_method_after(c.fq, c.fq, "__enter__")
            sup = lambda n: _contains_super_call(n, "__enter__")
            if tgt is None:
                col.violation(f"{ov_enter.fq}::super target", "no base __enter__ found in the MRO", ov_enter.loc())
            _check_effect_paths(col, ov_enter, sup, "super().__enter__()", expect_on_raise="zero-before", rule="R17.4")
            # an override must not touch the stack itself
            for n in walk_no_nested(ov_enter.node):
                if isinstance(n, ast.Call) and refs.resolve(n.func) in (push_name, pop_name):
                    pass  # reported by R17.2
        if ov_exit is not None:
            sup = lambda n: _contains_super_call(n, "__exit__")
            _check_effect_paths(col, ov_exit, sup, "super().__exit__()", expect_on_raise="one", rule="R17.4")
    # the base class really is a ContextDecorator
    col.check(any(b.endswith("ContextDecorator") for b in base.bases), f"{INTERP}::bases",
              "Interpretation derives from contextlib.ContextDecorator (decorator form = with form)",
              f"Interpretation no longer derives from contextlib.ContextDecorator: bases={base.bases}", base.module.loc(base.node))
    for forbidden in ("__call__", "_recreate_cm"):
        if forbidden in base.methods:
            col.violation(f"{INTERP}::{forbidden}", f"Interpretation overrides {forbidden}; the decorator form is no longer `with self: f()`", base.methods[forbidden].loc())

    # ------------------------------------------------------------------ R17.8 capture of the enclosing interpretation
    col.rule("R17.8", "an interpretation that delegates to the enclosing one captures it at every entry", floor=3)
    for c in subs:
        own_interpret = c.methods.get("interpret")
        if own_interpret is None:
            continue
        selfname = own_interpret.positional[0] if own_interpret.positional else "self"
        delegates = set()
        for n in walk_no_nested(own_interpret.node):
            if isinstance(n, ast.With):
                for it in n.items:
                    e = it.context_expr
                    if isinstance(e, ast.Attribute) and isinstance(e.value, ast.Name) and e.value.id == selfname:
                        delegates.add(e.attr)
            if isinstance(n, ast.Call) and isinstance(n.func, ast.Attribute) and n.func.attr == "interpret":
                e = n.func.value
                if isinstance(e, ast.Attribute) and isinstance(e.value, ast.Name) and e.value.id == selfname:
                    delegates.add(e.attr)
        for attr in sorted(delegates):
            sites = []
            for mname, m in c.methods.items():
                sn = m.positional[0] if m.positional else None
                for st in walk_no_nested(m.node):
                    if isinstance(st, (ast.Assign, ast.AugAssign, ast.AnnAssign)):
                        tgts = st.targets if isinstance(st, ast.Assign) else [st.target]
                        for t in tgts:
                            if isinstance(t, ast.Attribute) and t.attr == attr and isinstance(t.value, ast.Name) and t.value.id == sn:
                                sites.append((m, st))
            construct = f"{c.fq}::self.{attr}"
            if not sites:
                col.unresolved(construct, f"self.{attr} is delegated to in interpret() but never assigned in the class", c.module.loc(c.node))
                continue
            for m, st in sites:
                val = st.value if isinstance(st, (ast.Assign, ast.AnnAssign)) else None
                where = f"{m.fq}::{norm(st)}"
                if m.name == "__init__":
                    rebound = isinstance(val, ast.Name) and any(isinstance(x, ast.Name) and x.id == val.id and isinstance(x.ctx, ast.Store) for x in walk_no_nested(m.node))
                    if isinstance(val, ast.Name) and val.id in m.positional and rebound:
                        col.violation(where, f"the interpretation stored as `self.{attr}` is not the one the caller passed: `{val.id}` is reassigned inside the constructor first, "
                                      "so delegation skips (or replaces) the context that was active when the interpretation was created", m.loc(st))
                    elif isinstance(val, ast.Name) and val.id in m.positional:
                        col.ok(where, "the enclosing interpretation is supplied by the caller at construction", m.loc(st))
                    elif isinstance(val, ast.Constant) and val.value is None:
                        col.note(where, "initialised to None; must be captured in __enter__", m.loc(st))
                    else:
                        col.unresolved(where, "delegate attribute initialised from an expression of unknown kind", m.loc(st))
                elif m.name == "__enter__":
                    is_capture = isinstance(val, ast.Call) and refs.resolve(val.func) in getter_names and not val.args
                    if not is_capture:
                        col.unresolved(where, "delegate attribute assigned in __enter__ from something other than the current interpretation", m.loc(st))
                        continue
                    cfg = CFG(m.node)
                    nodes = cfg.nodes_for(st)
                    dom = bool(nodes) and any(cfg.dominates(n, cfg.exit) for n in nodes)
                    sup_calls = [n for n in cfg.stmt_nodes() if _contains_super_call(n.ast, "__enter__")]
                    before = all(any(cfg.dominates(a, sc) for a in nodes) for sc in sup_calls) if sup_calls else True
                    col.check(dom and before, where,
                              "the current interpretation is captured on every path of __enter__, before the context is pushed",
                              "the capture of the enclosing interpretation is conditional or happens after the push: a later entry under a different "
                              "enclosing interpretation would delegate to a stale one (terms are not interpreted by the enclosing context)", m.loc(st))
                elif m.name == "__exit__" and isinstance(val, ast.Call) and isinstance(val.func, ast.Attribute) and val.func.attr == "pop" \
                        and isinstance(val.func.value, ast.Attribute) and isinstance(val.func.value.value, ast.Name) and val.func.value.value.id == (m.positional[0] if m.positional else ""):
                    col.ok(where, "the delegate captured by an outer entry of the same object is restored on exit", m.loc(st))
                else:
                    col.unresolved(where, f"delegate attribute re-assigned in {m.name}()", m.loc(st))
            # re-entrancy: a delegate captured in __enter__ belongs to ONE entry; a nested entry of the same object overwrites it, so the value
            # must be saved before it is overwritten and restored when the inner entry exits
            enter_sites = [(m, st) for m, st in sites if m.name == "__enter__"]
            if enter_sites:
                m = enter_sites[0][0]
                sn = m.positional[0]
                saves = [x for x in walk_no_nested(m.node) if isinstance(x, ast.Call) and isinstance(x.func, ast.Attribute) and x.func.attr == "append"
                         and isinstance(x.func.value, ast.Attribute) and isinstance(x.func.value.value, ast.Name) and x.func.value.value.id == sn
                         and any(isinstance(y, ast.Attribute) and y.attr == attr and isinstance(y.value, ast.Name) and y.value.id == sn for a in x.args for y in ast.walk(a))
                         and x.lineno < enter_sites[0][1].lineno]
                ex = c.methods.get("__exit__")
                restores = [st for st in (walk_no_nested(ex.node) if ex is not None else []) if isinstance(st, ast.Assign)
                            and any(isinstance(t, ast.Attribute) and t.attr == attr for t in st.targets) and isinstance(st.value, ast.Call)
                            and isinstance(st.value.func, ast.Attribute) and st.value.func.attr == "pop"]
                col.check(bool(saves) and bool(restores), f"{c.fq}::self.{attr} is per entry",
                          f"the previous `self.{attr}` is saved before `__enter__` overwrites it and restored by `__exit__`: the object can be entered again while it is active",
                          f"`__enter__` overwrites `self.{attr}` with the interpretation active at THIS entry and nothing restores it: entering the same object again while it is active "
                          "(`with tape: with lazy: with tape: ...`) leaves the outer entry delegating to the inner entry's context after the inner block has exited - terms built "
                          "afterwards are interpreted by a context that is no longer on the stack", m.loc(enter_sites[0][1]))
    # ------------------------------------------------------------------ R17.11 a recording interpretation stays innermost for compound terms
    col.rule("R17.11", "a recording interpretation re-enters the enclosing one only around the ops it records as atomic", floor=1)
    n_rec = 0
    for c in subs:
        im = c.methods.get("interpret")
        if im is None or len(im.positional) < 2:
            continue
        selfn, clsn = im.positional[0], im.positional[1]
        appends = [x for x in ast.walk(im.node) if isinstance(x, ast.Call) and isinstance(x.func, ast.Attribute) and x.func.attr == "append"
                   and isinstance(x.func.value, ast.Attribute) and isinstance(x.func.value.value, ast.Name) and x.func.value.value.id == selfn]
        if not appends:
            continue
        n_rec += 1
        # constructions `cls(*args)` under `with self.<enclosing>:`
        for w in [x for x in walk_no_nested(im.node) if isinstance(x, ast.With)]:
            if not any(isinstance(it.context_expr, ast.Attribute) and isinstance(it.context_expr.value, ast.Name) and it.context_expr.value.id == selfn for it in w.items):
                continue
            builds = [x for st in w.body for x in ast.walk(st) if isinstance(x, ast.Call) and isinstance(x.func, ast.Name) and x.func.id == clsn]
            for b in builds:
                guards = [a for a in im.module.ancestors(b) if isinstance(a, ast.If) and im.module.enclosing_function(a) is im.node]
                # the branch (of a test on the class) that rebuilds under the enclosing interpretation is the branch that RECORDS the result
                on_cls = False
                for g in guards:
                    if not any(isinstance(y, ast.Name) and y.id == clsn for y in ast.walk(g.test)):
                        continue
                    for branch in (g.body, g.orelse):
                        if any(b is y for st in branch for y in ast.walk(st)) and any(a_ is y for st in branch for y in ast.walk(st) for a_ in appends):
                            on_cls = True
                col.check(on_cls, f"{im.fq}::with {selfn}.…: {norm(b)}",
                          f"the term is rebuilt under the enclosing interpretation only when `{clsn}` is one of the ops recorded as atomic",
                          f"`{norm(b)}` runs under the enclosing interpretation for EVERY class: the sub-terms its rules build are interpreted there and never reach this "
                          "interpretation (they are not recorded); compound terms must be delegated with `.interpret(cls, *args)`, which keeps this context innermost", im.loc(b))
    col.cur.analysed["recording_interpretations"] = n_rec

    # ------------------------------------------------------------------ R17.10 rules hand terms only downward
    col.rule("R17.10", "a rule of a partial interpretation hands a term only to layers beneath it (or declines), never to a fixed foreign total interpretation", floor=10)
    _check_downward_delegation(prog, col, refs)

    # ------------------------------------------------------------------ R17.5 layering order
    col.rule("R17.5", "layering order: entering interpretation first, enclosing one second, tried front to back", floor=4)
    _check_layering(prog, col, refs, enter, getter_names)

    # ------------------------------------------------------------------ R17.6 no unstructured entry
    col.rule("R17.6", "interpretations are entered only through with / decorator", floor=20)
    interp_classes = {INTERP} | {c.fq for c in subs}
    for mod in prog.all_modules(thorough):
        is_client = mod.name not in prog.modules
        for n in ast.walk(mod.tree):
            if isinstance(n, ast.Call) and isinstance(n.func, ast.Attribute) and n.func.attr in ("__enter__", "__exit__"):
                fnode = mod.enclosing_function(n)
                inside_same = isinstance(fnode, ast.FunctionDef) and fnode.name == n.func.attr
                construct = f"{func_label(prog, mod, n)}::{norm(n)}"
                if is_super_call(n) and inside_same:
                    col.ok(construct, "super() delegation inside the same protocol method", mod.loc(n), nontrivial=False)
                elif _in_minipyro_messenger(prog, mod, n):
                    col.note(construct, "minipyro Messenger protocol (own PYRO_STACK, not an interpretation)", mod.loc(n))
                else:
                    recv_kind = _context_kind(prog, mod, n.func.value, refs, interp_classes, getter_names)
                    if recv_kind == "interpretation" or not is_client:
                        col.violation(construct, "explicit __enter__/__exit__ call: unstructured entry/exit of a context", mod.loc(n))
                    else:
                        col.unresolved(construct, "explicit __enter__/__exit__ call on an object of unknown kind in client code", mod.loc(n))
            if isinstance(n, (ast.Name, ast.Attribute)) and refs.resolve(n) in ("contextlib.ExitStack", "contextlib.AsyncExitStack"):
                if not is_client:
                    col.unresolved(f"{func_label(prog, mod, n)}::{norm(enclosing_stmt(mod, n))}", "contextlib.ExitStack used in the library: entry order is decided at run time", mod.loc(n))
    n_with_interp = 0
    with_sites = []
    for mod in prog.all_modules(False):
        for n in ast.walk(mod.tree):
            if isinstance(n, (ast.With, ast.AsyncWith)):
                for it in n.items:
                    kind = _context_kind(prog, mod, it.context_expr, refs, interp_classes, getter_names)
                    construct = f"{func_label(prog, mod, n)}::with {norm(it.context_expr)}"
                    if kind == "interpretation":
                        n_with_interp += 1
                        with_sites.append(construct)
                        col.ok(construct, "interpretation entered by a with statement", mod.loc(n))
                    elif kind == "other":
                        col.note(construct, "not an interpretation", mod.loc(n))
                    else:
                        col.note(construct, "context expression of unknown kind (entered by `with`, hence structured)", mod.loc(n))
    col.cur.analysed["with_interpretation_sites"] = n_with_interp
    # decorators
    for f in prog.funcs.values():
        for d in f.decorators:
            if _context_kind(prog, f.module, d, refs, interp_classes, getter_names) == "interpretation":
                col.ok(f"{f.fq}::@{norm(d)}", "interpretation applied as a decorator (ContextDecorator -> with self)", f.loc())

    # ------------------------------------------------------------------ R17.7 generators
    col.rule("R17.7", "no generator suspends inside an interpretation context unless it is a @contextmanager", floor=0)
    for f in prog.funcs.values():
        if isinstance(f.node, ast.Lambda):
            continue
        yields = [n for n in walk_no_nested(f.node) if isinstance(n, (ast.Yield, ast.YieldFrom))]
        if not yields:
            continue
        is_cm = any((refs.resolve(d) or "").endswith("contextmanager") for d in f.decorators)
        for y in yields:
            withs = [a for a in f.module.ancestors(y) if isinstance(a, (ast.With, ast.AsyncWith)) and f.module.enclosing_function(a) is f.node]
            interp_withs = [w for w in withs if any(_context_kind(prog, f.module, it.context_expr, refs, interp_classes, getter_names) == "interpretation" for it in w.items)]
            if not interp_withs:
                continue
            construct = f"{f.fq}::{norm(y)}"
            if is_cm:
                col.ok(construct, "yield inside `with <interpretation>` in a @contextmanager: released when the managed block ends", f.loc(y))
            else:
                col.violation(construct, "a plain generator yields while an interpretation is pushed: the caller runs under it and exits are not nested", f.loc(y))
    # contextmanager generators that yield must do so inside the releasing with/try-finally when they entered something
    for f in prog.funcs.values():
        if isinstance(f.node, ast.Lambda):
            continue
        is_cm = any((refs.resolve(d) or "").endswith("contextmanager") for d in f.decorators)
        if not is_cm:
            continue
        enters = [n for n in walk_no_nested(f.node) if isinstance(n, (ast.With,)) and any(_context_kind(prog, f.module, it.context_expr, refs, interp_classes, getter_names) == "interpretation" for it in n.items)]
        if not enters:
            continue
        yields = [n for n in walk_no_nested(f.node) if isinstance(n, ast.Yield)]
        outside = [y for y in yields if not any(w in list(f.module.ancestors(y)) for w in enters)]
        col.check(not outside and len(yields) >= 1, f"{f.fq}::yield placement",
                  "the context manager yields inside the interpretation it enters",
                  "the context manager yields outside the `with <interpretation>` it opened: the managed block does not run under it / it is released early", f.loc())
        # the wrapped interpretation must be read before entering
        # (memoize(): base = get_interpretation(); with Memoize(base, cache))
        for w in enters:
            for it in w.items:
                if isinstance(it.context_expr, ast.Call):
                    inner_calls = [a for a in it.context_expr.args if isinstance(a, ast.Call) and refs.resolve(a.func) in getter_names]
                    names = [a for a in it.context_expr.args if isinstance(a, ast.Name)]
                    for a in names:
                        defs = [s for s in walk_no_nested(f.node) if isinstance(s, ast.Assign) and any(isinstance(t, ast.Name) and t.id == a.id for t in s.targets)]
                        for d in defs:
                            if isinstance(d.value, ast.Call) and refs.resolve(d.value.func) in getter_names:
                                col.check(d.lineno < w.lineno and not any(w in list(f.module.ancestors(d)) for _ in [0]),
                                          f"{f.fq}::{norm(d)}", "enclosing interpretation is read before the new context is entered",
                                          "the enclosing interpretation is read after entering", f.loc(d))
    # ---------------------------------------------------------------- R17.12 (engine shared with C16 R16.1)
    col.rule("R17.12", "falling through to the enclosing interpretation is decided afresh after a registration: the dispatch memo is invalidated by add()", floor=1)
    from . import c16 as _c16
    from .common import require_func as _rf
    _pc = _rf(prog, "funsor.registry::PartialDispatcher.partial_call")
    _subs = [n for n in walk_no_nested(_pc.node) if isinstance(n, ast.Subscript) and isinstance(n.value, ast.Attribute) and isinstance(n.value.value, ast.Name)
             and n.value.value.id == _pc.positional[0]]
    _c16._memo_invalidated(prog, col, _pc, sorted({n.value.attr for n in _subs}))
    # ---------------------------------------------------------------- R17.13 wrappers report the totality of what they wrap
    col.rule("R17.13", "an interpretation that wraps a base interpretation is total exactly when its base is", floor=2)
    _wrappers_report_totality(prog, col, refs)
    # ---------------------------------------------------------------- R17.14 what a layer contributes when it is flattened
    col.rule("R17.14", "an interpretation that does work of its own stays in the flattened stack (subinterpretations contains self)", floor=2)
    _flattening_keeps_workers(prog, col, refs)
    return col


# ---------------------------------------------------------------------- helpers



def _named_layers(prog: Program, refs: Refs):
    """Module-level named interpretations -> tuple of atomic layer names (flattened, in order).  Atomic layers are named by their
    canonical binding (`funsor.interpretations.eager_base`); `reflect` is the only total atom defined by the library."""
    PRI = "funsor.interpretations.PrioritizedInterpretation"
    ATOMS = {"funsor.interpretations.DispatchedInterpretation", "funsor.interpretations.CallableInterpretation"}
    raw = {}
    for mod in prog.modules.values():
        for name, bs in mod.bindings.items():
            fq = f"{mod.name}.{name}"
            for b in bs:
                if b.kind == "assign" and isinstance(b.value, ast.Call):
                    callee = refs.resolve(b.value.func) if isinstance(b.value.func, (ast.Name, ast.Attribute)) else None
                    if callee == PRI:
                        raw[fq] = ("layered", mod, b.value)
                    elif callee in ATOMS:
                        raw[fq] = ("atom", mod, b.value)
            lk = prog.funcs.get(f"{mod.name}::{name}")
            if lk is not None and any(refs.resolve(d) in ATOMS for d in lk.decorators if isinstance(d, (ast.Name, ast.Attribute))):
                raw[fq] = ("atom", mod, None)
    layers = {}

    def flat(fq, depth=0):
        if fq in layers:
            return layers[fq]
        if fq not in raw or depth > 6:
            return None
        kind, mod, call = raw[fq]
        if kind == "atom":
            layers[fq] = (fq,)
            return layers[fq]
        out = []
        for a in call.args:
            r = prog.resolve_expr(mod, a) if isinstance(a, (ast.Name, ast.Attribute)) else None
            sub = flat(r, depth + 1) if r else None
            if sub is None:
                return None
            out.extend(sub)
        layers[fq] = tuple(out)
        return layers[fq]

    for fq in list(raw):
        flat(fq)
    return layers


def _check_downward_delegation(prog: Program, col: Collector, refs: Refs):
    from ..catalogue import Catalogue
    cat = Catalogue(prog, refs)
    layers = _named_layers(prog, refs)
    REFLECT = "funsor.interpretations.reflect"
    if REFLECT not in layers:
        raise AnalysisError("anchor funsor.interpretations.reflect (the total bottom interpretation) not found")
    col.cur.analysed["named_interpretations"] = {k: list(v) for k, v in sorted(layers.items())}
    stateful = {c.fq for c in prog.subclasses("funsor.interpretations.StatefulInterpretation")}
    n_calls = 0
    seen = set()
    for reg in cat.registrations:
        if reg.target is None or reg.method != "register":
            continue
        if reg.registry in layers:
            own = layers[reg.registry][0]       # X.register on a layered interpretation registers with its FIRST layer
        elif reg.registry in stateful:
            own = reg.registry
        else:
            continue
        f = reg.target
        for c in ast.walk(f.node):
            if not (isinstance(c, ast.Call) and isinstance(c.func, ast.Attribute) and c.func.attr == "interpret"):
                continue
            t = refs.resolve(c.func.value) if isinstance(c.func.value, (ast.Name, ast.Attribute)) else None
            if t is None or t not in layers:
                continue
            key = (f.fq, own, norm(c))
            if key in seen:
                continue
            seen.add(key)
            n_calls += 1
            tl = layers[t]
            construct = f"{f.fq}::{norm(c.func)}"
            if t == REFLECT:
                col.ok(construct, "builds the term uninterpreted (reflect): no interpretation is bypassed, the result is re-interpreted by whoever evaluates it", f.loc(c), nontrivial=False)
                continue
            if REFLECT not in tl:
                col.ok(construct, f"delegates to the partial interpretation {t.rsplit('.', 1)[-1]}, which declines (None) when it has no rule: fall-through is kept", f.loc(c))
                continue
            homes = [n for n, ls in layers.items() if own in ls and set(tl) <= set(ls)]
            col.check(bool(homes), construct,
                      f"rule of layer {own.rsplit('.', 1)[-1]} re-dispatches to {t.rsplit('.', 1)[-1]}, whose layers all belong to a declared layering containing this layer ({homes[0].rsplit('.', 1)[-1] if homes else ''})",
                      f"a rule registered with the partial interpretation {own.rsplit('.', 1)[-1]} hands its term to the fixed total interpretation "
                      f"{t.rsplit('.', 1)[-1]} = {[x.rsplit('.', 1)[-1] for x in tl]}, which is not part of any declared layering containing "
                      f"{own.rsplit('.', 1)[-1]}: the term is no longer interpreted by the context enclosing `with {own.rsplit('.', 1)[-1]}` "
                      "(a partial interpretation must decline with None to fall through)", f.loc(c))
    col.cur.analysed["interpret_calls_in_rules"] = n_calls


def _is_minus_one(s: ast.AST) -> bool:
    return isinstance(s, ast.UnaryOp) and isinstance(s.op, ast.USub) and isinstance(s.operand, ast.Constant) and s.operand.value == 1


def _name_from_top(f: Func, name: str, reads) -> bool:
    for n in walk_no_nested(f.node):
        if isinstance(n, ast.Assign) and any(isinstance(t, ast.Name) and t.id == name for t in n.targets):
            if any(s in reads for s in ast.walk(n.value)):
                return True
    return False


def _calls(node: ast.AST, refs: Refs, names: Set[str]) -> int:
    """number of calls to any of ``names`` inside statement ``node`` (header only for compound statements)"""
    cnt = 0
    for sub in _header_walk(node):
        if isinstance(sub, ast.Call) and refs.resolve(sub.func) in names:
            cnt += 1
    return cnt


def _contains_super_call(node: ast.AST, method: str) -> int:
    return sum(1 for sub in _header_walk(node) if is_super_call(sub, method))


def _header_walk(node: ast.AST):
    """Walk the part of a statement that executes at its CFG node (the header of compound statements)."""
    if isinstance(node, (ast.If, ast.While)):
        yield from ast.walk(node.test)
    elif isinstance(node, (ast.For, ast.AsyncFor)):
        yield from ast.walk(node.iter)
    elif isinstance(node, (ast.With, ast.AsyncWith)):
        for it in node.items:
            yield from ast.walk(it.context_expr)
    elif isinstance(node, ast.Try):
        return
    elif isinstance(node, ast.ExceptHandler):
        if node.type is not None:
            yield from ast.walk(node.type)
    elif isinstance(node, (ast.FunctionDef, ast.AsyncFunctionDef, ast.ClassDef)):
        for d in node.decorator_list:
            yield from ast.walk(d)
    elif isinstance(node, ast.Match):
        yield from ast.walk(node.subject)
    else:
        yield from ast.walk(node)


def _check_effect_paths(col: Collector, f: Func, effect_count, what: str, expect_on_raise: str, rule: Optional[str] = None):
    """Every normal path performs the effect exactly once.  Exceptional paths:
    'zero-before'  - an exception may leave only before the effect (or be raised by the effect itself), nothing may raise after it;
    'one'          - the effect must have happened before any exception leaves, unless the effect call itself raised."""
    cfg = CFG(f.node)
    try:
        paths = list(cfg.all_paths_to_exits(limit=5000))
    except PathLimit:
        col.unresolved(f"{f.fq}::paths", "more than 5000 paths; not enumerated", f.loc(), rule=rule)
        return
    n_paths = 0
    reported = set()
    for path in paths:
        n_paths += 1
        last = path[-1][0]
        nodes = [n for n, _ in path if n.ast is not None and n.kind not in ("with_exit", "dispatch")]
        counts = [effect_count(n.ast) for n in nodes]
        total = sum(counts)
        desc = describe_path(path)
        if last.kind == "exit":
            if total != 1:
                key = ("normal", total)
                if key not in reported:
                    reported.add(key)
                    col.violation(f"{f.fq}::normal path with {total} {what}",
                                  f"a normal path through {f.name} performs {what} {total} time(s); exactly one is required", f.loc(), path=desc, rule=rule)
            else:
                # nothing after the effect may fail (for enter) - handled on the raise paths
                pass
        else:  # exception leaves the function; the raising node is the last ast node on the path
            raiser = nodes[-1] if nodes else None
            raiser_is_effect = raiser is not None and effect_count(raiser.ast) > 0
            before = sum(counts[:-1]) if nodes else 0
            positively = raiser is not None and isinstance(raiser.ast, (ast.Raise, ast.Assert))
            if expect_on_raise == "zero-before":
                if before > 0 and not raiser_is_effect or (before > 0):
                    key = ("raise-after", norm(raiser.ast))
                    if key not in reported:
                        reported.add(key)
                        msg = f"after {what} the statement `{norm(raiser.ast)}` may raise: __enter__ fails with the context already entered, and __exit__ will never run"
                        if positively:
                            col.violation(f"{f.fq}::raise after {what}", msg, f.loc(raiser.ast), path=desc, rule=rule)
                        elif _trivially_safe(raiser.ast):
                            pass
                        else:
                            col.violation(f"{f.fq}::{norm(raiser.ast)} after {what}", msg, f.loc(raiser.ast), path=desc, rule=rule)
            else:
                done = before + (0 if raiser_is_effect else 0)
                if raiser_is_effect and before == 0:
                    continue  # the effect call itself raised (e.g. pop from an empty stack)
                if before != 1:
                    key = ("raise-before", norm(raiser.ast), before)
                    if key in reported:
                        continue
                    reported.add(key)
                    msg = f"an exception raised by `{norm(raiser.ast)}` leaves {f.name} with {what} performed {before} time(s); the context would not be unwound exactly once"
                    if positively or before > 1:
                        col.violation(f"{f.fq}::exceptional path with {before} {what}", msg, f.loc(raiser.ast), path=desc, rule=rule)
                    elif _trivially_safe(raiser.ast):
                        pass
                    else:
                        col.unresolved(f"{f.fq}::{norm(raiser.ast)} before {what}", msg + " (whether the statement can really raise is not decided)", f.loc(raiser.ast), path=desc, rule=rule)
    ok_detail = f"{n_paths} CFG path(s) of {f.name} enumerated (normal and exceptional)"
    if not any(o.status == "violation" and o.construct.startswith(f.fq + "::") for o in col.cur.obligations):
        col.ok(f"{f.fq}::all paths perform {what} exactly once", ok_detail, f.loc(), rule=rule)
    col.cur.analysed.setdefault("paths", {})[f.fq] = n_paths


def _trivially_safe(st: ast.AST) -> bool:
    """Statements whose only 'may raise' constructs are attribute loads/stores on self, name loads, constants,
    identity comparisons - they cannot raise in a well-formed object."""
    for n in _header_walk(st):
        if isinstance(n, (ast.Call, ast.Subscript, ast.BinOp, ast.Raise, ast.Assert, ast.Await, ast.Yield, ast.YieldFrom, ast.Starred)):
            return False
        if isinstance(n, ast.Attribute) and not (isinstance(n.value, ast.Name) and n.value.id in ("self", "cls")):
            return False
        if isinstance(n, ast.Compare) and not all(isinstance(o, (ast.Is, ast.IsNot)) for o in n.ops):
            return False
    return True


def _structured_push_pop(mod: Module, call: ast.Call, what: str, refs: Refs, push_name: str, pop_name: str) -> bool:
    st = enclosing_stmt(mod, call)
    parent = mod.parent.get(st)
    if what == "push":
        if not isinstance(st, ast.Expr) or st.value is not call:
            return False
        body = _body_containing(parent, st)
        if body is None:
            return False
        i = body.index(st)
        if i + 1 >= len(body) or not isinstance(body[i + 1], ast.Try):
            return False
        fin = body[i + 1].finalbody
        pops = [n for s in fin for n in ast.walk(s) if isinstance(n, ast.Call) and refs.resolve(n.func) == pop_name]
        return len(pops) == 1
    else:
        # the pop must be a statement directly in a finally block whose try is immediately preceded by a push
        if not isinstance(parent, ast.Try) or st not in parent.finalbody:
            return False
        gp = mod.parent.get(parent)
        body = _body_containing(gp, parent)
        if body is None:
            return False
        i = body.index(parent)
        if i == 0:
            return False
        prev = body[i - 1]
        return isinstance(prev, ast.Expr) and isinstance(prev.value, ast.Call) and refs.resolve(prev.value.func) == push_name


def _body_containing(parent: ast.AST, st: ast.AST):
    for fld in ("body", "orelse", "finalbody"):
        b = getattr(parent, fld, None)
        if isinstance(b, list) and st in b:
            return b
    if isinstance(parent, ast.Try):
        for h in parent.handlers:
            if st in h.body:
                return h.body
    return None


def _pushed_values(f: Func, push_calls, refs: Refs, getter_names: Set[str]):
    """Flow-sensitive abstract values of the argument of each push call inside ``f``:
    ('self',) | ('current',) | ('layer', 'self', 'current') | ('other', text)"""
    from ..dataflow import Walker

    self_name = f.positional[0] if f.positional else None

    def ev(expr, env):
        if isinstance(expr, ast.Name):
            if expr.id in env:
                return env[expr.id]
            return frozenset({("other", f"free name {expr.id}")})
        if isinstance(expr, ast.Call):
            callee = refs.resolve(expr.func)
            if callee in getter_names and not expr.args and not expr.keywords:
                return frozenset({("current",)})
            if callee == "funsor.interpretations.PrioritizedInterpretation" and len(expr.args) == 2 and not expr.keywords:
                a, b = ev(expr.args[0], env), ev(expr.args[1], env)
                if a == {("self",)} and b == {("current",)}:
                    return frozenset({("layer", "self", "current")})
                return frozenset({("other", f"PrioritizedInterpretation({_fmt(a)}, {_fmt(b)})")})
        return frozenset({("other", norm(expr))})

    found = {}

    def on_stmt(st, env):
        for c in push_calls:
            if any(n is c for n in _header_walk(st)):
                found[c] = found.get(c, frozenset()) | (ev(c.args[0], env) if c.args else frozenset({("other", "no argument")}))

    init = {self_name: frozenset({("self",)})} if self_name else {}
    Walker(f.node, ev, on_stmt, init_env=init).run()
    return found


def _fmt(vals) -> str:
    return "|".join(sorted("/".join(map(str, v)) for v in vals))


def _check_layering(prog: Program, col: Collector, refs: Refs, enter: Func, getter_names: Set[str]):
    # (a) wrapper arguments in __enter__ and everywhere else a layering over the current interpretation is built
    n_wrappers = 0
    for mod in prog.all_modules(False):
        for c in ast.walk(mod.tree):
            if isinstance(c, ast.Call) and refs.resolve(c.func) == "funsor.interpretations.PrioritizedInterpretation":
                cur_pos = [i for i, a in enumerate(c.args) if isinstance(a, ast.Call) and refs.resolve(a.func) in getter_names]
                if not cur_pos:
                    continue
                n_wrappers += 1
                col.check(cur_pos == [len(c.args) - 1] and len(c.args) >= 2 and not c.keywords,
                          f"{func_label(prog, mod, c)}::{norm(c)}",
                          "the enclosing (current) interpretation is the last layer: new rules take priority, fall-through reaches the enclosing one",
                          "the current interpretation is not the last argument of PrioritizedInterpretation(...): the enclosing interpretation would take priority over the entering one",
                          mod.loc(c))
    pcls = prog.classes.get("funsor.interpretations.PrioritizedInterpretation")
    if pcls is None:
        raise AnalysisError("PrioritizedInterpretation not found")
    init = pcls.methods.get("__init__")
    interp = pcls.methods.get("interpret")
    if init is None or interp is None:
        raise AnalysisError("PrioritizedInterpretation.__init__/interpret not found")
    # (b) order-preserving flattening stored in an attribute
    vararg = init.node.args.vararg.arg if init.node.args.vararg else None
    stored_attr = None
    flatten_ok = None
    for st in walk_no_nested(init.node):
        if isinstance(st, ast.Assign) and len(st.targets) == 1:
            t = st.targets[0]
            if isinstance(t, ast.Attribute) and isinstance(t.value, ast.Name) and t.value.id == init.positional[0]:
                # self.X = <expr>; does it derive from the vararg?
                srcs = _flows_from(init, st.value, vararg)
                if srcs:
                    stored_attr = t.attr
    if vararg is None or stored_attr is None:
        col.unresolved(f"{init.fq}::flattening", "cannot find the attribute that stores the flattened sub-interpretations", init.loc())
    else:
        verdict, why, loc_node = _order_preserving(init, vararg)
        if verdict is True:
            col.ok(f"{init.fq}::flattening", f"sub-interpretations are flattened in argument order into self.{stored_attr} ({why})", init.loc(loc_node))
        elif verdict is False:
            col.violation(f"{init.fq}::flattening", f"sub-interpretations are re-ordered when stored: {why}", init.loc(loc_node))
        else:
            col.unresolved(f"{init.fq}::flattening", f"flattening form not recognised: {why}", init.loc(loc_node))
    # (c) interpret: front-to-back, first non-None
    loops = [n for n in walk_no_nested(interp.node) if isinstance(n, ast.For)]
    if len(loops) != 1:
        col.unresolved(f"{interp.fq}::dispatch loop", f"expected one for-loop, found {len(loops)}", interp.loc())
    else:
        lp = loops[0]
        it = lp.iter
        iter_ok = None
        why = ""
        if isinstance(it, ast.Attribute) and isinstance(it.value, ast.Name) and it.value.id == interp.positional[0]:
            if it.attr == stored_attr or _property_returns(pcls, it.attr, stored_attr):
                iter_ok = True
            else:
                iter_ok, why = None, f"iterates self.{it.attr}, not the stored attribute self.{stored_attr}"
        elif isinstance(it, ast.Call) and isinstance(it.func, ast.Name) and it.func.id in ("reversed", "sorted", "set", "frozenset"):
            iter_ok, why = False, f"iterates {norm(it)}: order of priority is changed"
        elif isinstance(it, ast.Subscript) and isinstance(it.slice, ast.Slice) and it.slice.step is not None:
            iter_ok, why = False, f"iterates {norm(it)}: a stepped slice re-orders or skips layers"
        elif isinstance(it, ast.Subscript) and isinstance(it.slice, ast.Slice):
            iter_ok, why = False, f"iterates {norm(it)}: a slice skips layers (no fall-through to the enclosing interpretation)"
        else:
            why = f"iterable {norm(it)} not recognised"
        if iter_ok is True:
            col.ok(f"{interp.fq}::iteration order", f"iterates self.{it.attr} front to back", interp.loc(lp))
        elif iter_ok is False:
            col.violation(f"{interp.fq}::iteration order", why, interp.loc(lp))
        else:
            col.unresolved(f"{interp.fq}::iteration order", why, interp.loc(lp))
        # body: r = s.interpret(cls, *args); if r is not None: return r
        body_ok, why = _first_non_none(lp, interp)
        if body_ok is True:
            col.ok(f"{interp.fq}::first non-None wins", "each layer is tried with all arguments; the first result that is not None is returned", interp.loc(lp))
        elif body_ok is False:
            col.violation(f"{interp.fq}::first non-None wins", why, interp.loc(lp))
        else:
            col.unresolved(f"{interp.fq}::first non-None wins", why, interp.loc(lp))
    # (d) sub-interpretation views: base returns (self,), layered returns the stored tuple
    base = prog.classes[INTERP]
    bp = base.methods.get("subinterpretations")
    if bp is not None:
        rets = [n for n in walk_no_nested(bp.node) if isinstance(n, ast.Return)]
        good = len(rets) == 1 and isinstance(rets[0].value, ast.Tuple) and len(rets[0].value.elts) == 1 and isinstance(rets[0].value.elts[0], ast.Name) and rets[0].value.elts[0].id == bp.positional[0]
        col.check(good, f"{bp.fq}::returns (self,)", "an atomic interpretation is its own single layer", "Interpretation.subinterpretations is not (self,)", bp.loc())
    pp = pcls.methods.get("subinterpretations")
    if pp is not None and stored_attr:
        col.check(_property_returns(pcls, "subinterpretations", stored_attr), f"{pp.fq}::returns stored tuple",
                  f"layered interpretation exposes self.{stored_attr} unchanged", "PrioritizedInterpretation.subinterpretations does not return the stored tuple unchanged", pp.loc())
    col.cur.analysed["layering_wrappers"] = n_wrappers


def _flows_from(f: Func, expr: ast.AST, src: Optional[str], depth=0) -> bool:
    if src is None or depth > 5:
        return False
    for n in ast.walk(expr):
        if isinstance(n, ast.Name):
            if n.id == src:
                return True
            for st in walk_no_nested(f.node):
                if isinstance(st, ast.Assign) and any(isinstance(t, ast.Name) and t.id == n.id for t in st.targets) and st.value is not expr:
                    if n.id != src and _flows_from(f, st.value, src, depth + 1):
                        return True
    return False


def _order_preserving(init: Func, vararg: str):
    """Is the (re)assignment of the vararg an order-preserving flatten?  Returns (True/False/None, why, node)."""
    assigns = [st for st in walk_no_nested(init.node) if isinstance(st, ast.Assign) and any(isinstance(t, ast.Name) and t.id == vararg for t in st.targets)]
    if not assigns:
        return True, "stored as passed", init.node
    for st in assigns:
        v = st.value
        inner = v
        if isinstance(v, ast.Call) and isinstance(v.func, ast.Name) and v.func.id in ("tuple", "list") and len(v.args) == 1:
            inner = v.args[0]
        elif isinstance(v, ast.Call) and isinstance(v.func, ast.Name) and v.func.id in ("reversed", "sorted", "set", "frozenset"):
            return False, f"{norm(v)}", st
        if isinstance(inner, (ast.GeneratorExp, ast.ListComp)):
            gens = inner.generators
            for g in gens:
                if isinstance(g.iter, ast.Call) and isinstance(g.iter.func, ast.Name) and g.iter.func.id in ("reversed", "sorted", "set", "frozenset"):
                    return False, f"iterates {norm(g.iter)}", st
                if isinstance(g.iter, ast.Subscript):
                    return False, f"iterates the slice {norm(g.iter)} (layers dropped or re-ordered)", st
                if g.ifs:
                    return None, f"filtered comprehension {norm(inner)}", st
            if len(gens) == 2 and isinstance(gens[0].iter, ast.Name) and gens[0].iter.id == vararg \
                    and isinstance(gens[0].target, ast.Name) and isinstance(gens[1].iter, ast.Attribute) \
                    and isinstance(gens[1].iter.value, ast.Name) and gens[1].iter.value.id == gens[0].target.id \
                    and isinstance(gens[1].target, ast.Name) and isinstance(inner.elt, ast.Name) and inner.elt.id == gens[1].target.id:
                continue
            if len(gens) == 1 and isinstance(gens[0].iter, ast.Name) and gens[0].iter.id == vararg:
                continue
            return None, f"comprehension {norm(inner)}", st
        elif isinstance(v, ast.BinOp) or isinstance(v, ast.Name):
            continue
        else:
            # a pipeline of order transformations over the flattened tuple: reversals must cancel, and a de-duplication must
            # keep the FIRST copy in layering order (dropping a later copy of a deterministic partial interpretation changes
            # nothing; dropping the innermost copy does)
            verdict = _seq_pipeline(v, vararg)
            if verdict is None:
                return None, f"{norm(v)}", st
            if verdict is not True:
                return False, f"{norm(v)}: {verdict}", st
            continue
    return True, "nested comprehension over the arguments and their own layers, in order", assigns[0]


def _seq_pipeline(e: ast.AST, src: str):
    """True when `e` is the sequence `src` with order kept (and at most later duplicates dropped); a string when it reorders
    or drops an earlier (inner) copy; None when not understood."""
    rev = False
    cur = e
    problems = []
    steps = []
    while True:
        if isinstance(cur, ast.Name) and cur.id == src:
            break
        if isinstance(cur, ast.Subscript) and isinstance(cur.slice, ast.Slice) and cur.slice.lower is None and cur.slice.upper is None \
                and isinstance(cur.slice.step, ast.UnaryOp) and isinstance(cur.slice.step.op, ast.USub) and isinstance(cur.slice.step.operand, ast.Constant) and cur.slice.step.operand.value == 1:
            steps.append("rev")
            cur = cur.value
            continue
        if isinstance(cur, ast.Call) and isinstance(cur.func, ast.Name) and len(cur.args) == 1:
            if cur.func.id in ("tuple", "list"):
                cur = cur.args[0]
                continue
            if cur.func.id == "reversed":
                steps.append("rev")
                cur = cur.args[0]
                continue
            if cur.func.id in ("set", "frozenset", "sorted"):
                return f"`{cur.func.id}` does not keep the layering order"
            return None
        if isinstance(cur, ast.Call) and isinstance(cur.func, ast.Attribute) and cur.func.attr == "fromkeys" and len(cur.args) == 1:
            steps.append("dedup")
            cur = cur.args[0]
            continue
        return None
    # steps were collected outermost-first; apply innermost-first
    for st_ in reversed(steps):
        if st_ == "rev":
            rev = not rev
        elif st_ == "dedup" and rev:
            problems.append("duplicates are removed scanning from the tail, which drops the innermost (first) copy of a re-entered interpretation")
    if rev:
        problems.append("the order of the layers is reversed")
    return True if not problems else "; ".join(problems)


def _property_returns(cls, prop: str, attr: Optional[str]) -> bool:
    m = cls.methods.get(prop)
    if m is None or attr is None:
        return False
    rets = [n for n in walk_no_nested(m.node) if isinstance(n, ast.Return)]
    return len(rets) == 1 and isinstance(rets[0].value, ast.Attribute) and rets[0].value.attr == attr and isinstance(rets[0].value.value, ast.Name) and rets[0].value.value.id == m.positional[0]


def _first_non_none(lp: ast.For, interp: Func):
    if not isinstance(lp.target, ast.Name):
        return None, "loop target is not a simple name"
    s = lp.target.id
    params = interp.positional
    var = interp.node.args.vararg.arg if interp.node.args.vararg else None
    call_ok = False
    result_name = None
    for st in lp.body:
        if isinstance(st, ast.Assign) and len(st.targets) == 1 and isinstance(st.targets[0], ast.Name) and isinstance(st.value, ast.Call):
            c = st.value
            if isinstance(c.func, ast.Attribute) and c.func.attr == "interpret" and isinstance(c.func.value, ast.Name) and c.func.value.id == s:
                args_ok = (len(c.args) == len(params) - 1 + (1 if var else 0)
                           and all(isinstance(a, ast.Name) and a.id == p for a, p in zip(c.args, params[1:]))
                           and (var is None or (isinstance(c.args[-1], ast.Starred) and isinstance(c.args[-1].value, ast.Name) and c.args[-1].value.id == var)))
                if not args_ok:
                    return False, f"the layer is called with {norm(c)}: not the class and all arguments in order"
                call_ok = True
                result_name = st.targets[0].id
    if not call_ok:
        return None, "loop body does not have the form r = s.interpret(cls, *args)"
    for st in lp.body:
        if isinstance(st, ast.If):
            t = st.test
            if isinstance(t, ast.Compare) and isinstance(t.left, ast.Name) and t.left.id == result_name and len(t.ops) == 1 \
                    and isinstance(t.ops[0], ast.IsNot) and isinstance(t.comparators[0], ast.Constant) and t.comparators[0].value is None:
                rets = [x for x in st.body if isinstance(x, ast.Return)]
                if rets and isinstance(rets[0].value, ast.Name) and rets[0].value.id == result_name:
                    if st.orelse:
                        return None, "else branch present in the fall-through test"
                    return True, ""
                return False, "the non-None result is not what is returned"
            return False, f"fall-through test is `{norm(t)}`, not `{result_name} is not None`"
    return False, "no fall-through test: the first layer's result is used even when it declined (None)"


def _check_default_is_eager(prog: Program, col: Collector):
    mod = prog.modules["funsor.interpretations"]
    b = mod.bindings.get("eager")
    if not b or b[-1].kind != "assign" or not isinstance(b[-1].value, ast.Call):
        col.unresolved("funsor.interpretations::eager", "definition of `eager` not a constructor call", mod.rel)
        return
    c = b[-1].value
    last = norm(c.args[-1]) if c.args else "?"
    first = norm(c.args[0]) if c.args else "?"
    col.check(norm(c.func) == "PrioritizedInterpretation" and last == "reflect" and first == "eager_base",
              "funsor.interpretations::eager definition",
              "eager = PrioritizedInterpretation(eager_base, ..., reflect): total, so entering it never layers over the enclosing context",
              f"`eager` is defined as {norm(c)}; expected a layering that starts with eager_base and ends with the total `reflect`", mod.loc(c))


def _in_minipyro_messenger(prog: Program, mod: Module, n: ast.AST) -> bool:
    return mod.name == "funsor.minipyro"


def _context_kind(prog: Program, mod: Module, expr: ast.AST, refs: Refs, interp_classes: Set[str], getter_names: Set[str], depth: int = 0) -> str:
    """'interpretation' | 'other' | 'unknown' for a with-item / decorator / receiver expression."""
    if depth > 5:
        return "unknown"
    if isinstance(expr, ast.IfExp):
        a = _context_kind(prog, mod, expr.body, refs, interp_classes, getter_names, depth + 1)
        b = _context_kind(prog, mod, expr.orelse, refs, interp_classes, getter_names, depth + 1)
        return a if a == b else ("interpretation" if "interpretation" in (a, b) else "unknown")
    if isinstance(expr, ast.Call):
        callee = refs.resolve(expr.func)
        if callee in interp_classes:
            return "interpretation"
        if callee in getter_names:
            return "interpretation"
        if callee is not None:
            lk = prog.lookup(callee)
            if lk and lk[0] == "func":
                f = lk[1]
                if any((refs.resolve(d) or "").endswith("contextmanager") for d in f.decorators):
                    # a context manager function: interpretation-related iff it enters one
                    for w in walk_no_nested(f.node):
                        if isinstance(w, ast.With) and any(_context_kind(prog, f.module, it.context_expr, refs, interp_classes, getter_names, depth + 1) == "interpretation" for it in w.items):
                            return "interpretation"
                    return "other"
            if callee.split(".")[0] in ("warnings", "numpy", "torch", "jax", "contextlib"):
                return "other"
            if lk and lk[0] == "class":
                return "other"
        return "unknown"
    r = refs.resolve(expr) if isinstance(expr, (ast.Name, ast.Attribute)) else None
    if r is not None:
        lk = prog.lookup(r)
        if lk and lk[0] == "value":
            _, vmod, value, stmt = lk
            if isinstance(value, ast.Call):
                return _context_kind(prog, vmod, value, refs, interp_classes, getter_names, depth + 1)
        if lk and lk[0] == "func":
            f = lk[1]
            for d in f.decorators:
                dr = refs.resolve(d)
                if dr in interp_classes:
                    return "interpretation"
                if isinstance(d, ast.Attribute) and d.attr == "set_callable":
                    return "interpretation"
        if r.startswith("funsor.interpretations.") and lk is None:
            return "unknown"
    if isinstance(expr, ast.Attribute) and isinstance(expr.value, ast.Name) and expr.value.id == "self":
        if expr.attr in ("base_interpretation", "_old_interpretation"):
            return "interpretation"
    if isinstance(expr, ast.Name):
        # a local name bound from an interpretation-valued expression
        fnode = mod.enclosing_function(expr)
        if fnode is not None:
            for st in walk_no_nested(fnode):
                if isinstance(st, ast.Assign) and any(isinstance(t, ast.Name) and t.id == expr.id for t in st.targets):
                    k = _context_kind(prog, mod, st.value, refs, interp_classes, getter_names, depth + 1)
                    if k == "interpretation":
                        return k
    return "unknown"


def _wrappers_report_totality(prog: Program, col: Collector, refs: Refs):
    """Interpretation.__enter__ pushes a total interpretation alone and layers a partial one over everything that is active
    (PrioritizedInterpretation flattens the layers and refuses more than a fixed number of them).  A wrapper such as Memoize or
    SubstituteInterpretation always answers - through its base - so it must report `is_total` of the base: the inherited default
    False makes every use add a layer (substitute() is entered for every substitution), and a legal nest of a few partial
    interpretations then fails on entry."""
    base = "funsor.interpretations.Interpretation"
    n = 0
    for c in prog.classes.values():
        if c.fq == base or not prog.is_subclass(c.fq, base):
            continue
        init = c.methods.get("__init__")
        interp = c.methods.get("interpret")
        if init is None or interp is None:
            continue
        selfn = init.positional[0]
        stores = [t for st in walk_no_nested(init.node) if isinstance(st, ast.Assign) for t in st.targets
                  if isinstance(t, ast.Attribute) and isinstance(t.value, ast.Name) and t.value.id == selfn and t.attr == "base_interpretation"]
        if not stores:
            continue
        n += 1
        m = c.methods.get("is_total")
        ok = False
        if m is not None:
            rets = [r for r in walk_no_nested(m.node) if isinstance(r, ast.Return) and r.value is not None]
            ok = bool(rets) and all(norm(r.value) == f"{m.positional[0]}.base_interpretation.is_total" for r in rets)
        col.check(ok, f"{c.fq}::is_total", "is_total returns self.base_interpretation.is_total",
                  f"{c.name} wraps `base_interpretation` and answers every term through it, but does not report the base's totality (is_total "
                  f"{'is inherited: False' if m is None else 'returns something else'}): entering it layers it over the whole active stack instead of replacing it, so each use deepens the "
                  "flattened stack and a legal nest of partial interpretations overflows the layer limit on entry", (m or interp).loc())
    col.cur.analysed["wrapper_interpretations"] = n


def _flattening_keeps_workers(prog: Program, col: Collector, refs: Refs):
    """PrioritizedInterpretation flattens its arguments through their `subinterpretations` and afterwards asks only those.  The base
    class answers (self,); the prioritized sequence answers its own members, and its interpret() does nothing but ask them.  Any
    other class that overrides `subinterpretations` without listing itself is dropped from every stack it is layered into - its own
    interpret() (a memo lookup, a tape) never runs, and a partial interpretation above it falls through to the wrong layer."""
    base = "funsor.interpretations.Interpretation"
    n = 0
    for c in prog.classes.values():
        if not (c.fq == base or prog.is_subclass(c.fq, base)):
            continue
        m = c.methods.get("subinterpretations")
        if m is None:
            continue
        n += 1
        selfn = m.positional[0]
        rets = [r for r in walk_no_nested(m.node) if isinstance(r, ast.Return) and r.value is not None]
        lists_self = bool(rets) and all(isinstance(r.value, (ast.Tuple, ast.List)) and any(isinstance(e, ast.Name) and e.id == selfn for e in r.value.elts) for r in rets)
        # pure sequencer: interpret() only iterates over the attribute that subinterpretations returns
        attr = norm(rets[0].value) if len(rets) == 1 else None
        interp = c.methods.get("interpret")
        sequencer = False
        if interp is not None and attr is not None and attr.startswith(selfn + "."):
            loops = [lp for lp in walk_no_nested(interp.node) if isinstance(lp, ast.For)]
            sequencer = len(loops) == 1 and norm(loops[0].iter).replace(interp.positional[0] + ".", selfn + ".", 1) == attr
        col.check(lists_self or sequencer, f"{c.fq}::subinterpretations", "returns (self,)" if lists_self else "a pure sequence of its members, which interpret() merely asks in order",
                  f"{c.name}.subinterpretations returns `{norm(rets[0].value) if rets else '?'}`, which does not contain the {c.name} itself although {c.name}.interpret does work of its own: "
                  "when the interpretation is layered (entered under or over a partial interpretation) the flattened stack no longer contains it, so its interpret() never runs and "
                  "partial interpretations fall through past it", m.loc())
    col.cur.analysed["subinterpretations_definitions"] = n
