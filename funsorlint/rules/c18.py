"""C18 - compiled and traced programs compute what interpretation computes (writer/reader agreement clauses)."""
from __future__ import annotations

import ast
from typing import Dict, List, Optional, Tuple

from ..catalogue import Catalogue
from ..cfg import CFG
from ..model import AnalysisError, Func, Program, norm
from ..report import Collector
from .common import Refs, require_func, walk_no_nested

EXPLANATION = (
    "Writer/reader agreement of straight-line op programs, decided on the source of the two writers (compiler.compile_funsor, "
    "ops.tracer.trace_function) and the two readers (OpProgram.__call__, OpProgram.as_code). R18.1: value ids are handed out by "
    "`ids[x] = len(ids)` in three phases; the phase order of each writer (which collection is filled) mapped through the "
    "OpProgram constructor onto attributes must equal the order in which each reader extends its environment. R18.2: a missing "
    "input reaches a raise and leftover keyword arguments reach a raise before the first operation runs. R18.3: operand order is "
    "preserved by lowering, compilation, execution and printing. R18.4: the root is last (anf moves it to the end, readers return "
    "the last value). R18.5: unsupported terms are rejected, never skipped. R18.6: the program's collections are frozen as tuples."
    ' Added since: R18.3 accepts any permutation fold of a contraction, flags filters / slices / zip-pair truncation; R18.4 the tracer rejects a function whose result is not the last numbered value; R18.5 tracer constant predicate, repeated-input guard, complete or named printing of op parameters; R18.7 the trace record depends on *args and **kwargs; R18.8 popped operands are consumed on every path.'
    ' Round 5: R18.9 Op.__reduce__ carries every parameter; R18.10 a one-component tuple prints as a tuple; R18.11 allocations of value numbers and emitted slots are paired on every path of the numbering loops; R18.12 the tracer numbers operations in tape order.'
)
ASSUMPTIONS = ["that each op computes the same value inside and outside a program is not decided", "pickling relies on R18.6 and on Op.__reduce__ (C07)"]
RULE_TEXT = "one obligation per phase sequence, per validation path, per operand-order site, per rejection site"

COLLS = ("constants", "inputs", "operations")


def _top_loops(f: Func) -> List[ast.For]:
    return [s for s in f.body if isinstance(s, ast.For)]


def _writer_phases(f: Func) -> Tuple[List[str], Optional[str], Dict[str, int]]:
    """[collection filled in each id-numbering phase, in source order], name of the id table, ctor arg order"""
    phases: List[str] = []
    table = None
    for lp in _top_loops(f):
        numbered = [n for n in ast.walk(lp) if isinstance(n, ast.Assign) and isinstance(n.targets[0], ast.Subscript) and isinstance(n.value, ast.Call)
                    and norm(n.value.func) == "len" and n.value.args and norm(n.value.args[0]) == norm(n.targets[0].value)]
        if not numbered:
            continue
        table = norm(numbered[0].targets[0].value)
        appended = [c.func.value.id for c in ast.walk(lp) if isinstance(c, ast.Call) and isinstance(c.func, ast.Attribute) and c.func.attr == "append"
                    and isinstance(c.func.value, ast.Name)]
        appended = [a for a in appended if a != table]
        phases.append(appended[0] if len(set(appended)) == 1 else "?" + "/".join(sorted(set(appended))))
    ctor = [n for n in walk_no_nested(f.node) if isinstance(n, ast.Return) and isinstance(n.value, ast.Call) and norm(n.value.func).endswith("OpProgram")]
    order = {}
    if ctor:
        for i, a in enumerate(ctor[0].value.args):
            if isinstance(a, ast.Name):
                order[a.id] = i
    return phases, table, order


def run(prog: Program, col: Collector, tier: str, refs: Optional[Refs] = None, cat: Optional[Catalogue] = None):
    refs = refs or Refs(prog)
    cat = cat or Catalogue(prog, refs)
    cf = require_func(prog, "funsor.compiler::compile_funsor")
    tf = require_func(prog, "funsor.ops.tracer::trace_function")
    init = require_func(prog, "funsor.ops.program::OpProgram.__init__")
    call = require_func(prog, "funsor.ops.program::OpProgram.__call__")
    code = require_func(prog, "funsor.ops.program::OpProgram.as_code")

    # ---------------------------------------------------------------- R18.6 (needed for the attribute mapping)
    col.rule("R18.6", "OpProgram freezes its collections as tuples", floor=3)
    attr_of_param: Dict[int, str] = {}
    params = init.positional[1:]
    for n in walk_no_nested(init.node):
        if isinstance(n, ast.Assign) and isinstance(n.targets[0], ast.Attribute) and isinstance(n.targets[0].value, ast.Name) and n.targets[0].value.id == init.positional[0]:
            v = n.value
            src = None
            frozen = False
            if isinstance(v, ast.Call) and norm(v.func) == "tuple" and len(v.args) == 1 and isinstance(v.args[0], ast.Name) and v.args[0].id in params:
                src, frozen = v.args[0].id, True
            elif isinstance(v, ast.Name) and v.id in params:
                src = v.id
            elif isinstance(v, ast.Call) and v.args and isinstance(v.args[0], ast.Name) and v.args[0].id in params:
                src = v.args[0].id
            if src is not None:
                attr_of_param[params.index(src)] = n.targets[0].attr
                col.check(frozen, f"{init.fq}::{norm(n)}", "stored as an immutable tuple", f"`{norm(n)}` keeps a mutable or lazily evaluated collection: a pickled or reused program may be reordered", init.loc(n))
    if len(attr_of_param) < 3:
        raise AnalysisError("OpProgram.__init__: cannot map the three constructor parameters to attributes")

    # ---------------------------------------------------------------- R18.1
    col.rule("R18.1", "writers and readers number constants, inputs, operations in the same order", floor=4)
    seqs: Dict[str, List[str]] = {}
    for f in (cf, tf):
        phases, table, order = _writer_phases(f)
        mapped = []
        for ph in phases:
            if ph in order and order[ph] in attr_of_param:
                mapped.append(attr_of_param[order[ph]])
            else:
                mapped.append("?" + ph)
        seqs[f.fq] = mapped
        # ids are dense: every numbering statement is `ids[k] = len(ids)` on one table
        col.check(len(phases) == 3 and not any(m.startswith("?") for m in mapped), f"{f.fq}::phases", f"three numbering phases {mapped}",
                  f"numbering phases {mapped} cannot be matched to the three program collections (an id is handed out in a loop that fills no or several collections)", f.loc())
    # readers
    selfn = call.positional[0]
    rseq: List[str] = []
    for st in call.body:
        if isinstance(st, ast.Assign) and isinstance(st.value, ast.Call) and norm(st.value.func) == "list" and st.value.args:
            a = st.value.args[0]
            if isinstance(a, ast.Attribute) and isinstance(a.value, ast.Name) and a.value.id == selfn:
                rseq.append(a.attr)
                envname = st.targets[0].id if isinstance(st.targets[0], ast.Name) else None
        if isinstance(st, ast.For) and isinstance(st.iter, ast.Attribute) and isinstance(st.iter.value, ast.Name) and st.iter.value.id == selfn:
            if any(isinstance(c, ast.Call) and isinstance(c.func, ast.Attribute) and c.func.attr == "append" for c in ast.walk(st)):
                rseq.append(st.iter.attr)
    seqs[call.fq] = rseq
    cseq: List[str] = []
    for st in code.body:
        if isinstance(st, ast.For) and isinstance(st.iter, ast.Attribute) and isinstance(st.iter.value, ast.Name) and st.iter.value.id == code.positional[0]:
            if any(isinstance(c, ast.Call) and isinstance(c.func, ast.Name) and c.func.id == "let" for c in ast.walk(st)):
                cseq.append(st.iter.attr)
    seqs[code.fq] = cseq
    ref = seqs[call.fq]
    for fq, s in seqs.items():
        f = prog.funcs[fq]
        col.check(s == ref and len(s) == 3, f"{fq}::phase order", f"value ids are assigned in the order {s}",
                  f"value ids are assigned in the order {s} but OpProgram.__call__ builds its environment in the order {ref}: arg_ids written by this function point at the wrong values", f.loc())
    # the three collections are passed to the constructor positionally in the order of its parameters
    for f in (cf, tf):
        _, _, order = _writer_phases(f)
        names = sorted(order, key=order.get)
        col.check([attr_of_param.get(order[n]) for n in names] == [attr_of_param[i] for i in range(3)] and len(names) == 3, f"{f.fq}::OpProgram(...)",
                  "collections are handed to the constructor in its parameter order", "constructor arguments are not the three collections in parameter order", f.loc())

    # ---------------------------------------------------------------- R18.2
    col.rule("R18.2", "missing and unexpected inputs are rejected before any operation runs", floor=2)
    kw = call.node.args.kwarg.arg if call.node.args.kwarg else None
    if kw is None:
        col.violation(f"{call.fq}::signature", "OpProgram.__call__ no longer receives inputs as **kwargs", call.loc())
    else:
        in_loop = [st for st in call.body if isinstance(st, ast.For) and isinstance(st.iter, ast.Attribute) and st.iter.attr == "inputs"]
        ops_loop = [st for st in call.body if isinstance(st, ast.For) and isinstance(st.iter, ast.Attribute) and st.iter.attr == "operations"]
        ok_missing = False
        if in_loop:
            lp = in_loop[0]
            name = lp.target.id if isinstance(lp.target, ast.Name) else None
            for n in ast.walk(lp):
                # value = kwargs.pop(name, None); if value is None: raise
                if isinstance(n, ast.If) and any(isinstance(x, ast.Raise) for x in n.body):
                    t = norm(n.test)
                    if "is None" in t or f"not in {kw}" in t:
                        ok_missing = True
                # un-defaulted kwargs.pop(name) / kwargs[name]
                if isinstance(n, ast.Call) and isinstance(n.func, ast.Attribute) and n.func.attr == "pop" and norm(n.func.value) == kw and len(n.args) == 1:
                    ok_missing = True
                if isinstance(n, ast.Subscript) and norm(n.value) == kw and isinstance(n.ctx, ast.Load):
                    ok_missing = True
            # each input's value must be consumed from kwargs (pop), so that leftovers are exactly the unexpected ones
            consumed = any(isinstance(n, ast.Call) and isinstance(n.func, ast.Attribute) and n.func.attr == "pop" and norm(n.func.value) == kw for n in ast.walk(lp))
        col.check(bool(in_loop) and ok_missing, f"{call.fq}::missing input", "a missing binding reaches a raise",
                  "a declared input that is not supplied does not reach a raise (None / KeyError-free default is appended to the environment)", call.loc(in_loop[0]) if in_loop else call.loc())
        leftover = [st for st in call.body if isinstance(st, ast.If) and norm(st.test) in (kw, f"len({kw})", f"{kw} != {{}}", f"len({kw}) > 0")
                    and any(isinstance(x, ast.Raise) for x in st.body)]
        pos_ok = bool(leftover) and bool(in_loop) and bool(ops_loop) and in_loop[0].lineno < leftover[0].lineno < ops_loop[0].lineno
        col.check(pos_ok and consumed, f"{call.fq}::unexpected input", "leftover keyword arguments reach a raise after the inputs are consumed and before the first operation",
                  "unexpected keyword arguments are not rejected (no `if kwargs: raise` between reading the inputs and running the operations, or inputs are not popped)", call.loc())

    # ---------------------------------------------------------------- R18.3
    col.rule("R18.3", "operand order is preserved by lowering, compilation, execution and printing", floor=6)
    # compile_funsor: the operations list is whatever is passed third to OpProgram(...); every branch on the node class appends
    # (op, ids) to it.  Names are found by role, not by spelling.
    ops_list = None
    for n in walk_no_nested(cf.node):
        if isinstance(n, ast.Return) and isinstance(n.value, ast.Call) and refs.resolve(n.value.func) == "funsor.ops.program.OpProgram" and len(n.value.args) == 3 \
                and isinstance(n.value.args[2], ast.Name):
            ops_list = n.value.args[2].id
    if ops_list is None:
        raise AnalysisError("compile_funsor: cannot find the operations list (third argument of the returned OpProgram)")
    for n in ast.walk(cf.node):
        if isinstance(n, ast.If) and isinstance(n.test, ast.Call) and norm(n.test.func) == "isinstance" and len(n.test.args) == 2:
            cls = norm(n.test.args[1])
            fvar = norm(n.test.args[0])
            apps = [c for b in n.body for c in ast.walk(b) if isinstance(c, ast.Call) and isinstance(c.func, ast.Attribute) and c.func.attr == "append"
                    and norm(c.func.value) == ops_list and len(c.args) == 1 and isinstance(c.args[0], ast.Tuple) and len(c.args[0].elts) == 2]
            if not apps:
                continue
            opx, idx = apps[0].args[0].elts
            v = idx
            if isinstance(idx, ast.Name):
                ds = [a for a in n.body if isinstance(a, ast.Assign) and len(a.targets) == 1 and isinstance(a.targets[0], ast.Name) and a.targets[0].id == idx.id]
                v = ds[-1].value if ds else None
            loc = cf.loc(apps[0])

            def fields(t):
                """[('M', 'attr'), ...] for a tuple display of M[<fvar>.attr] subscripts"""
                out = []
                for e in (t.elts if isinstance(t, ast.Tuple) else []):
                    if isinstance(e, ast.Subscript) and isinstance(e.value, ast.Name) and isinstance(e.slice, ast.Attribute) and norm(e.slice.value) == fvar:
                        out.append((e.value.id, e.slice.attr))
                    else:
                        out.append((None, norm(e)))
                return out

            if cls == "Binary":
                fs = fields(v) if v is not None else []
                ok = [a for _, a in fs] == ["lhs", "rhs"] and len({m for m, _ in fs}) == 1 and fs[0][0] is not None
                col.check(ok, f"{cf.fq}::Binary operand ids", "(ids of lhs, ids of rhs) in constructor order",
                          f"Binary operands are compiled as {[a for _, a in fs]}, expected ['lhs', 'rhs']: non-commutative ops compute with swapped operands", loc)
            elif cls == "Unary":
                fs = fields(v) if v is not None else []
                col.check([a for _, a in fs] == ["arg"] and fs[0][0] is not None, f"{cf.fq}::Unary operand ids", "(id of arg,)", f"Unary operand compiled as {[a for _, a in fs]}", loc)
            elif cls == "Tuple":
                g = v.args[0] if isinstance(v, ast.Call) and norm(v.func) == "tuple" and v.args and isinstance(v.args[0], ast.GeneratorExp) else None
                ok = g is not None and len(g.generators) == 1 and norm(g.generators[0].iter) == f"{fvar}.args" and not g.generators[0].ifs \
                    and isinstance(g.elt, ast.Subscript) and isinstance(g.generators[0].target, ast.Name) and norm(g.elt.slice) == g.generators[0].target.id
                col.check(ok, f"{cf.fq}::Tuple operand ids", "elements in f.args order", f"Tuple elements compiled as `{norm(v) if v is not None else None}`", loc)
            if cls in ("Unary", "Binary"):
                col.check(norm(opx) == f"{fvar}.op", f"{cf.fq}::{cls} op", "records the term's own op", f"records `{norm(opx)}` as the op of a {cls}", loc)
    # lowering
    lower_rules = {}
    lower_registry = None
    for r in cat.registrations:
        if r.module.name == "funsor.compiler" and r.method == "register" and len(r.pattern) == 1 and r.target is not None:
            head = refs.resolve(r.pattern[0])
            if head in ("funsor.terms.Binary", "funsor.cnf.Contraction"):
                lower_rules[head.rsplit(".", 1)[-1]] = r.target
                lower_registry = r.registry
    if "Binary" not in lower_rules or "Contraction" not in lower_rules or lower_registry is None:
        raise AnalysisError("cannot locate the lowering rules for Binary / Contraction by role (singledispatch registrations in funsor.compiler)")
    lb = lower_rules["Binary"]
    rets = [n for n in walk_no_nested(lb.node) if isinstance(n, ast.Return)]
    x = lb.positional[0]
    good = False
    if rets and isinstance(rets[0].value, ast.Call) and norm(rets[0].value.func) == "Binary" and len(rets[0].value.args) == 3:
        a = rets[0].value.args
        src = {}
        for n in walk_no_nested(lb.node):
            if isinstance(n, ast.Assign) and isinstance(n.targets[0], ast.Name) and isinstance(n.value, ast.Call) and n.value.args:
                src[n.targets[0].id] = norm(n.value.args[0])
        def origin(e):
            if isinstance(e, ast.Name):
                return src.get(e.id, e.id)
            if isinstance(e, ast.Call) and e.args:
                return norm(e.args[0])
            return norm(e)
        good = norm(a[0]) == f"{x}.op" and origin(a[1]) == f"{x}.lhs" and origin(a[2]) == f"{x}.rhs"
    col.check(good, f"{lb.fq}::rebuild", "Binary(x.op, lower(x.lhs), lower(x.rhs))", "lowering rebuilds a Binary with a different op or swapped operands", lb.loc())
    lc = lower_rules["Contraction"]
    x = lc.positional[0]
    # every term of x.terms is lowered and combined with x.bin_op exactly once.  All associative ops are commutative, so the
    # order of the fold does not matter; what matters is that the collection that is folded covers x.terms without filter
    # or slice, and that the combining function is Binary(x.bin_op, ., .).  Recognised: functools.reduce over that collection.
    verdict, why = None, ""
    locals_ = {}
    for n in walk_no_nested(lc.node):
        if isinstance(n, ast.Assign) and len(n.targets) == 1 and isinstance(n.targets[0], ast.Name):
            locals_.setdefault(n.targets[0].id, []).append(n.value)

    def is_dedup(v):
        return isinstance(v, ast.Call) and ((isinstance(v.func, ast.Attribute) and v.func.attr == "fromkeys")
                                            or (isinstance(v.func, ast.Name) and v.func.id in ("set", "frozenset")) or norm(v.func).endswith("unique")) \
            or (isinstance(v, ast.Call) and isinstance(v.func, ast.Name) and v.func.id in ("list", "tuple", "sorted") and v.args and is_dedup(v.args[0]))

    def covers_terms(e, depth=0):
        """True / False (positively drops or filters) / None (unknown)"""
        if depth > 4:
            return None
        if isinstance(e, ast.Name) and e.id in locals_ and len(locals_[e.id]) == 1:
            return covers_terms(locals_[e.id][0], depth + 1)
        if isinstance(e, ast.Name) and e.id in locals_ and len(locals_[e.id]) > 1:
            # re-bindings that only remove duplicates are judged separately (below); the others must all cover the terms
            rest = [d for d in locals_[e.id] if not is_dedup(d)]
            res = [covers_terms(d, depth + 1) for d in rest]
            if rest and all(r is True for r in res):
                return True
            return False if any(r is False for r in res) else None
        if isinstance(e, ast.Call) and isinstance(e.func, ast.Name) and e.func.id in ("list", "tuple", "reversed", "sorted") and len(e.args) >= 1:
            return covers_terms(e.args[0], depth + 1)
        if isinstance(e, ast.Call) and isinstance(e.func, ast.Name) and e.func.id == "map" and len(e.args) == 2:
            return True if norm(e.args[1]) == f"{x}.terms" else None
        if isinstance(e, (ast.ListComp, ast.GeneratorExp)) and len(e.generators) == 1:
            g = e.generators[0]
            if g.ifs:
                return False
            it = g.iter
            if isinstance(it, ast.Call) and isinstance(it.func, ast.Name) and it.func.id in ("reversed", "sorted", "list", "tuple") and it.args:
                it = it.args[0]
            if isinstance(it, ast.Subscript) and norm(it.value) == f"{x}.terms":
                return False
            if norm(it) != f"{x}.terms":
                return None
            uses = any(isinstance(y, ast.Name) and isinstance(g.target, ast.Name) and y.id == g.target.id for y in ast.walk(e.elt))
            return True if uses else False
        if isinstance(e, ast.Subscript) and covers_terms(e.value, depth + 1) is not None:
            return False
        return None

    def combiner_ok(e, depth=0):
        if depth > 3:
            return None
        if isinstance(e, ast.Name) and e.id in locals_ and len(locals_[e.id]) == 1:
            return combiner_ok(locals_[e.id][0], depth + 1)
        if isinstance(e, ast.Call) and norm(e.func) in ("functools.partial", "partial") and len(e.args) == 2 and refs.resolve(e.args[0]) == "funsor.terms.Binary":
            return norm(e.args[1]) == f"{x}.bin_op"
        if isinstance(e, ast.Lambda) and isinstance(e.body, ast.Call) and refs.resolve(e.body.func) == "funsor.terms.Binary" and len(e.body.args) == 3:
            return norm(e.body.args[0]) == f"{x}.bin_op"
        return None

    # removing repeated terms before the fold: op(a, a) == a only for idempotent ops, so the removal must sit under a test of x.bin_op
    # against ops that ARE idempotent (max, min, and, or - not add, mul, logaddexp)
    from .. import axioms as _ax
    IDEMP = {"MAX", "MIN", "AND", "OR"}
    for nm, ds in locals_.items():
        for d in ds:
            if not is_dedup(d):
                continue
            st_ = d
            while not isinstance(st_, ast.stmt):
                st_ = lc.module.parent.get(st_)
            guards = [a for a in lc.module.ancestors(st_) if isinstance(a, ast.If) and any(st_ is y for b_ in a.body for y in ast.walk(b_))]
            ops_named = []
            tested = False
            for g in guards:
                for t in ast.walk(g.test):
                    if isinstance(t, ast.Compare) and len(t.ops) == 1 and norm(t.left) == f"{x}.bin_op" and isinstance(t.ops[0], (ast.In, ast.Is, ast.Eq)):
                        tested = True
                        cmpv = t.comparators[0]
                        if isinstance(cmpv, ast.Name):
                            lk = prog.lookup(refs.resolve(cmpv) or "")
                            cmpv = lk[2] if lk and lk[0] == "value" else cmpv
                        for e_ in (cmpv.elts if isinstance(cmpv, (ast.Tuple, ast.List, ast.Set)) else [cmpv]):
                            o_ = cat.resolve_op(lc.module, e_) if isinstance(e_, (ast.Name, ast.Attribute)) else None
                            ops_named.append((norm(e_), _ax.identify(cat, o_) if o_ is not None else None))
            bad_ops = [n_ for n_, ab in ops_named if ab not in IDEMP]
            col.check(tested and not bad_ops, f"{lc.fq}::{norm(d)[:50]}", "repeated terms are removed only under a test that bin_op is idempotent (max / min / and / or)",
                      f"`{norm(d)[:50]}` removes repeated terms of the contraction" + (f" for ops including {bad_ops}, which are not idempotent" if bad_ops else " without a test of the op")
                      + ": op(a, a) != a for add, mul and logaddexp (logaddexp(x, x) = x + log 2), so the compiled program drops a contribution the term has", lc.loc(st_))
    for r_ in [n for n in walk_no_nested(lc.node) if isinstance(n, ast.Return) and n.value is not None]:
        c = r_.value
        if isinstance(c, ast.Call) and norm(c.func) in ("functools.reduce", "reduce") and len(c.args) in (2, 3):
            cov, comb = covers_terms(c.args[1]), combiner_ok(c.args[0])
            if cov is False:
                verdict, why = False, "the collection that is folded drops, filters or slices x.terms: an operand vanishes from the compiled program"
            elif comb is False:
                verdict, why = False, "the terms are combined with an op other than the contraction's bin_op"
            elif cov and comb:
                verdict = True
    # positive evidence of a dropped operand in a hand-written pairwise fold: zip(xs[0::2], xs[1::2]) truncates to the shorter
    # slice, so the last element of an odd-length list vanishes unless the function tests the parity of the length
    for z in [n for n in walk_no_nested(lc.node) if isinstance(n, ast.Call) and isinstance(n.func, ast.Name) and n.func.id == "zip" and len(n.args) == 2]:
        a, b = z.args
        if all(isinstance(t, ast.Subscript) and isinstance(t.slice, ast.Slice) and isinstance(t.slice.step, ast.Constant) and t.slice.step.value == 2 and isinstance(t.value, ast.Name) for t in (a, b)) \
                and a.value.id == b.value.id:
            seq = a.value.id
            parity = any(isinstance(n, ast.BinOp) and isinstance(n.op, ast.Mod) and isinstance(n.right, ast.Constant) and n.right.value == 2 and f"len({seq})" in norm(n.left)
                         for n in walk_no_nested(lc.node))
            if not parity:
                verdict, why = False, f"`{norm(z)}` pairs the elements of `{seq}` and silently drops the last one when their number is odd (no test of len({seq}) % 2): an operand vanishes from the compiled program"
    if verdict is None:
        col.unresolved(f"{lc.fq}::fold", "the contraction is not lowered by functools.reduce over the lowered terms; the hand-written fold is not decided", lc.loc())
    else:
        col.check(verdict, f"{lc.fq}::fold", "every term of x.terms is lowered and folded with the contraction's bin_op", why, lc.loc())
    # execution and printing
    exec_ok = False
    for st in call.body:
        if isinstance(st, ast.For) and isinstance(st.iter, ast.Attribute) and st.iter.attr == "operations" and isinstance(st.target, ast.Tuple) and len(st.target.elts) == 2:
            opn, idsn = st.target.elts[0].id, st.target.elts[1].id
            t = [norm(n) for n in st.body]
            gen = [n for n in ast.walk(st) if isinstance(n, ast.GeneratorExp)]
            ok_gen = any(norm(g.generators[0].iter) == idsn and not g.generators[0].ifs and isinstance(g.elt, ast.Subscript) and norm(g.elt.slice) == g.generators[0].target.id for g in gen)
            applies = any(isinstance(n, ast.Call) and isinstance(n.func, ast.Name) and n.func.id == opn and len(n.args) == 1 and isinstance(n.args[0], ast.Starred) for n in ast.walk(st))
            appends = any(isinstance(n, ast.Call) and isinstance(n.func, ast.Attribute) and n.func.attr == "append" for n in ast.walk(st))
            exec_ok = ok_gen and applies and appends
    col.check(exec_ok, f"{call.fq}::apply", "op(*[env[i] for i in arg_ids]) appended to the environment, in arg_ids order",
              "the interpreter loop does not apply each op to env[i] for i in arg_ids in order and append the result", call.loc())
    print_ok = False
    for st in code.body:
        if isinstance(st, ast.For) and isinstance(st.iter, ast.Attribute) and st.iter.attr == "operations":
            gen = [n for n in ast.walk(st) if isinstance(n, ast.GeneratorExp)]
            print_ok = any(isinstance(st.target, ast.Tuple) and norm(g.generators[0].iter) == st.target.elts[1].id and not g.generators[0].ifs for g in gen)
    col.check(print_ok, f"{code.fq}::print args", "arguments are printed in arg_ids order", "as_code does not print the arguments in arg_ids order", code.loc())

    # ---------------------------------------------------------------- R18.4
    col.rule("R18.4", "the root value is last", floor=3)
    anf = require_func(prog, "funsor.interpreter::anf")
    cfg = CFG(anf.node)
    mv = [n for n in walk_no_nested(anf.node) if isinstance(n, ast.Expr) and isinstance(n.value, ast.Call) and isinstance(n.value.func, ast.Attribute) and n.value.func.attr == "move_to_end"
          and n.value.args and norm(n.value.args[0]) == anf.positional[0] and len(n.value.args) == 1 and not n.value.keywords]
    rets = [n for n in walk_no_nested(anf.node) if isinstance(n, ast.Return)]
    ok = bool(mv) and all(any(cfg.dominates(a, b) for m in mv for a in cfg.nodes_for(m)) for r in rets for b in cfg.nodes_for(r)) \
        and all(isinstance(r.value, ast.Name) and r.value.id == norm(mv[0].value.func.value) for r in rets)
    col.check(ok, f"{anf.fq}::root last", "env.move_to_end(x) dominates the return of env", "anf does not move the root expression to the end before returning: programs return an inner value", anf.loc())
    last = [n for n in walk_no_nested(call.node) if isinstance(n, ast.Subscript) and isinstance(n.slice, ast.UnaryOp) and isinstance(n.slice.op, ast.USub)
            and isinstance(n.slice.operand, ast.Constant) and n.slice.operand.value == 1]
    rets = [n for n in walk_no_nested(call.node) if isinstance(n, ast.Return)]
    ok = bool(last) and len(rets) == 1
    if ok:
        rv = rets[0].value
        ok = (rv in last) or (isinstance(rv, ast.Name) and any(isinstance(a, ast.Assign) and a.value in last and norm(a.targets[0]) == rv.id for a in walk_no_nested(call.node)))
    col.check(ok, f"{call.fq}::returns env[-1]", "the program returns the last computed value", "OpProgram.__call__ does not return the last value of the environment", call.loc())
    # the printed `return <name><index>`: an appended f-string whose literal part starts with `return ` and whose index is `... - 1`;
    # the name part (a literal prefix or a computed one) is whatever `let` uses - not compared textually
    rl = []
    for n_ in code.body:
        if isinstance(n_, ast.Expr) and isinstance(n_.value, ast.Call) and isinstance(n_.value.func, ast.Attribute) and n_.value.func.attr == "append" and n_.value.args \
                and isinstance(n_.value.args[0], ast.JoinedStr):
            js = n_.value.args[0]
            lit = "".join(v.value for v in js.values if isinstance(v, ast.Constant) and isinstance(v.value, str))
            if lit.strip().startswith("return"):
                rl.append(n_)
    def _idx_minus_one(n_):
        fv = [v for v in n_.value.args[0].values if isinstance(v, ast.FormattedValue)]
        return bool(fv) and isinstance(fv[-1].value, ast.BinOp) and isinstance(fv[-1].value.op, ast.Sub) and isinstance(fv[-1].value.right, ast.Constant) and fv[-1].value.right.value == 1
    col.check(bool(rl) and _idx_minus_one(rl[-1]), f"{code.fq}::returns last variable", "the printed function returns the last variable",
              "as_code does not return the last variable", code.loc())
    # the compiler numbers the anf of the lowered expression (whose last element is the root)
    src = [norm(n) for n in walk_no_nested(cf.node) if isinstance(n, ast.Assign)]
    col.check(any("interpreter.anf(" in s or "anf(" in s for s in src) and not any("reversed(" in s for s in src), f"{cf.fq}::uses anf order",
              "operations are emitted in anf order (children before parents, root last)", "compile_funsor does not iterate the A-normal form in order", cf.loc())

    # the tracer: the program returns its last value, so the traced root must carry the last id.  Operations are numbered last and
    # in anf order, which makes an op result the last id - but a function that returns one of its inputs (or a constant) unchanged
    # has no operation for the root: the writer must test that the root's id is the last one (and reject otherwise)
    root_names = set()
    for w in [n for n in ast.walk(tf.node) if isinstance(n, ast.With)]:
        if any(refs.resolve(i.context_expr.func) == "funsor.ops.op.trace_ops" for i in w.items if isinstance(i.context_expr, ast.Call)):
            for st in w.body:
                if isinstance(st, ast.Assign) and isinstance(st.value, ast.Call) and isinstance(st.value.func, ast.Name) and st.value.func.id == tf.positional[0]:
                    root_names |= {t.id for t in st.targets if isinstance(t, ast.Name)}
    idmaps = {n.targets[0].value.id for n in ast.walk(tf.node) if isinstance(n, ast.Assign) and isinstance(n.targets[0], ast.Subscript) and isinstance(n.targets[0].value, ast.Name)
              and isinstance(n.value, ast.Call) and norm(n.value.func) == "len" and n.value.args and norm(n.value.args[0]) == n.targets[0].value.id}
    guard = None
    for c in [n for n in ast.walk(tf.node) if isinstance(n, ast.Compare) and len(n.ops) == 1]:
        sides = [c.left, c.comparators[0]]
        has_root_id = any(isinstance(x, ast.Subscript) and isinstance(x.value, ast.Name) and x.value.id in idmaps and isinstance(x.slice, ast.Call) and norm(x.slice.func) == "id"
                          and x.slice.args and norm(x.slice.args[0]) in root_names for x in sides)
        has_last = any(isinstance(x, ast.BinOp) and isinstance(x.op, ast.Sub) and isinstance(x.left, ast.Call) and norm(x.left.func) == "len" and norm(x.left.args[0]) in idmaps
                       and isinstance(x.right, ast.Constant) and x.right.value == 1 for x in sides)
        if has_root_id and has_last:
            guard = c
    if not root_names or not idmaps:
        col.unresolved(f"{tf.fq}::root is last", "traced root / id map not found by role", tf.loc())
    else:
        ok = False
        if guard is not None:
            st = guard
            while not isinstance(st, ast.stmt):
                st = tf.module.parent.get(st)
            if isinstance(st, ast.Assert) and isinstance(guard.ops[0], ast.Eq):
                ok = True
            if isinstance(st, ast.If) and isinstance(guard.ops[0], ast.NotEq) and any(isinstance(x, ast.Raise) for x in st.body):
                ok = True
        col.check(ok, f"{tf.fq}::root is last", "the tracer rejects a function whose result is not the last numbered value",
                  "nothing ensures that the traced root carries the last id: a function returning one of its inputs (lambda x, y: x) is traced to a program that returns "
                  "the last input instead", tf.loc(guard) if guard is not None else tf.loc())

    # ---------------------------------------------------------------- R18.5
    col.rule("R18.5", "unsupported input is rejected, never skipped", floor=4)
    x = lc.positional[0]
    first = lc.body[0] if lc.body else None
    ok = isinstance(first, ast.If) and norm(first.test) == f"{x}.reduced_vars" and any(isinstance(s, ast.Raise) for s in first.body)
    col.check(ok, f"{lc.fq}::reduced_vars", "a contraction that still reduces variables is rejected before lowering",
              "a Contraction with reduced variables is lowered as if it reduced nothing (the reduction is silently dropped)", lc.loc())
    lk = prog.lookup(lower_registry)
    if not lk or lk[0] != "func":
        raise AnalysisError(f"lowering dispatcher {lower_registry} not found")
    ld = lk[1]
    col.check(any(isinstance(s, ast.Raise) for s in ld.body), f"{ld.fq}::default", "term types without a lowering rule raise",
              "the default of the lowering dispatcher no longer raises: unknown terms pass through unlowered", ld.loc())
    # compile_funsor: the if/elif chain over term kinds ends in else: raise; a `continue` branch is allowed only for raw tuples
    chains = [n for n in ast.walk(cf.node) if isinstance(n, ast.If) and isinstance(n.test, ast.Call) and norm(n.test.func) == "isinstance" and "Unary" in norm(n.test)]
    ok = False
    if chains:
        # leaves of the if / elif / else tree with their path conditions [(test, polarity), ...]
        leaves = []

        def walk_chain(node, conds):
            t, pos = node.test, True
            while isinstance(t, ast.UnaryOp) and isinstance(t.op, ast.Not):
                t, pos = t.operand, not pos
            for body, p_ in ((node.body, pos), (node.orelse, not pos)):
                c2 = conds + [(t, p_)]
                if len(body) == 1 and isinstance(body[0], ast.If):
                    walk_chain(body[0], c2)
                elif len(body) > 1 and isinstance(body[0], ast.If) and not body[0].orelse and body[0].body \
                        and isinstance(body[0].body[-1], (ast.Raise, ast.Return, ast.Continue, ast.Break)):
                    # early exit followed by the rest of the block = if / else
                    walk_chain(ast.If(test=body[0].test, body=body[0].body, orelse=list(body[1:])), c2)
                else:
                    leaves.append((c2, body))

        walk_chain(chains[0], [])
        ok = True
        saw_raise = False
        for conds, body in leaves:
            if any(isinstance(s_, ast.Raise) for s_ in body):
                saw_raise = True
                continue
            if any(isinstance(s_, ast.Continue) for s_ in body) or not body:
                # allowed only where the path condition says `f` is a raw tuple
                is_tuple = any(p_ and isinstance(t, ast.Call) and norm(t.func) == "isinstance" and len(t.args) == 2 and norm(t.args[1]) == "tuple" for t, p_ in conds)
                if not is_tuple:
                    ok = False
        ok = ok and saw_raise
    col.check(ok, f"{cf.fq}::else raise", "term kinds the compiler does not know end in a raise; only raw tuples are skipped",
              "a term kind is skipped (continue) or falls through without an operation being emitted: the program silently omits a node", cf.loc())
    txt = [norm(n) for n in ast.walk(tf.node) if isinstance(n, ast.If)]
    ok = any("allow_constants" in t for t in txt) and any(isinstance(n, ast.Raise) for i in ast.walk(tf.node) if isinstance(i, ast.If) and "allow_constants" in norm(i.test) for n in i.body)
    col.check(ok, f"{tf.fq}::constants", "array constants captured from the closure are rejected unless allowed", "trace_function no longer rejects captured array constants", tf.loc())
    # the predicate that rejects captured constants is the predicate that decides what is traced (writer/reader agreement):
    # a value the tracer treats as variable but that enters the program as a constant would be frozen at its trace-time value
    filt = None
    for n in ast.walk(tf.node):
        if isinstance(n, ast.Call) and refs.resolve(n.func) == "funsor.ops.op.trace_ops" and n.args:
            filt = norm(n.args[0])
    guards = []
    for i in ast.walk(tf.node):
        if isinstance(i, ast.If) and "allow_constants" in norm(i.test) and any(isinstance(x, ast.Raise) for x in i.body):
            for c in ast.walk(i.test):
                if isinstance(c, ast.Call) and isinstance(c.func, ast.Name) and c.func.id != "isinstance":
                    guards.append(norm(c.func))
    if filt is None or not guards:
        col.unresolved(f"{tf.fq}::constant predicate", "trace filter or constant guard not found", tf.loc())
    else:
        col.check(all(g == filt for g in guards), f"{tf.fq}::constant predicate", f"constants are rejected by the trace filter `{filt}` itself",
                  f"captured constants are rejected with `{guards[0]}` but the tracer decides what is variable with `{filt}`: values the tracer follows "
                  "(tuples of arrays passed to stack / cat / einsum) can be frozen into the program as constants, which then ignores its inputs", tf.loc())
    # the guard against one array bound to two inputs counts DISTINCT ids: it compares len(<set>) with len(<inputs>)
    kwp = tf.positional[1] if len(tf.positional) > 1 else None
    guard_found = False
    for a in [n for n in walk_no_nested(tf.node) if isinstance(n, ast.Assert)]:
        t = a.test
        if isinstance(t, ast.Compare) and len(t.ops) == 1 and isinstance(t.ops[0], ast.Eq) and norm(t.comparators[0]) == f"len({kwp})" \
                and isinstance(t.left, ast.Call) and norm(t.left.func) == "len" and isinstance(t.left.args[0], ast.Name):
            guard_found = True
            nm = t.left.args[0].id
            ds = [n.value for n in walk_no_nested(tf.node) if isinstance(n, ast.Assign) and any(isinstance(x, ast.Name) and x.id == nm for x in n.targets)]
            is_set = bool(ds) and all(isinstance(d, (ast.SetComp, ast.DictComp, ast.Set)) or (isinstance(d, ast.Call) and norm(d.func) in ("set", "frozenset")) for d in ds)
            col.check(is_set, f"{tf.fq}::repeated inputs", "the repeated-input guard counts distinct object ids (a set)",
                      f"`{nm}` is not a set, so `{norm(t)}` always holds: one array bound to two inputs is no longer rejected and both inputs are wired to one slot", tf.loc(a))
    if not guard_found:
        col.note(f"{tf.fq}::repeated inputs", "no `len(ids) == len(inputs)` guard found", tf.loc())
    # printing an op: its parameters are printed completely and in declaration order, or by name
    po = prog.funcs.get("funsor.ops.program::_print_op")
    if po is None:
        col.unresolved("funsor.ops.program::_print_op", "printer of parametrised ops not found", "")
    else:
        gens = [g for g in ast.walk(po.node) if isinstance(g, (ast.GeneratorExp, ast.ListComp)) or (isinstance(g, ast.Call) and norm(g.func) == "map")]
        verdicts = []
        for g in gens:
            if isinstance(g, ast.Call):
                it = g.args[1] if len(g.args) == 2 else None
                complete = it is not None and norm(it).endswith(".defaults.values()")
                verdicts.append(complete)
            else:
                gen = g.generators[0]
                src = norm(gen.iter)
                if ".defaults" not in src:
                    continue
                filtered = bool(gen.ifs)
                named = any(isinstance(x, ast.Constant) and isinstance(x.value, str) and "=" in x.value for x in ast.walk(g.elt)) and ".items()" in src
                verdicts.append((not filtered) or named)
        if not verdicts:
            col.unresolved(f"{po.fq}::parameters", "no parameter printing found", po.loc())
        else:
            col.check(all(verdicts), f"{po.fq}::parameters", "all parameters are printed in declaration order (or by name)",
                      "a subset of the op's parameters is printed positionally: a later non-default parameter is read back as an earlier one "
                      "(ClampOp(max=0.5) prints as ClampOp(0.5), i.e. min=0.5)", po.loc())

    # ---------------------------------------------------------------- R18.8
    col.rule("R18.8", "an operand taken out of a work list by the compiler / lowering code is consumed on every path", floor=5)
    _popped_values(prog, col)

    # ---------------------------------------------------------------- R18.7
    col.rule("R18.7", "what the tracer records for an op call determines the computation that was traced", floor=1)
    _trace_record(prog, col, refs)

    # ---------------------------------------------------------------- R18.9 (shared with C07: R07.6)
    col.rule("R18.9", "a pickled program keeps every parameter of its ops", floor=1)
    from .c07 import op_reduce_clause
    op_reduce_clause(prog, col)

    # ---------------------------------------------------------------- R18.13 / R18.14 what the program runs equals what interpretation runs
    # a program applies the raw op to arrays (or numpy scalars); eager interpretation goes through the tensor kernels and the mixed
    # scalar/array registrations: both must be the op (shared with C02 R02.13 and C15 R15.6)
    from . import algebra, c15
    algebra.r_operand_returned_unchanged(prog, col, refs, cat, "R18.13")
    col.rule("R18.14", "mixed scalar/array registrations of a commutative op are mirror images", floor=6)
    c15._mirror(prog, col, refs, cat)

    # ---------------------------------------------------------------- R18.11
    col.rule("R18.11", "every value number that is allocated has exactly one slot emitted for it, on every path of the numbering loops", floor=5)
    _alloc_emit_pairing(prog, col, refs)

    # ---------------------------------------------------------------- R18.12
    col.rule("R18.12", "the tracer numbers operations in execution order (a topological order), not in order of discovery from the root", floor=1)
    _trace_order(prog, col, refs)

    # ---------------------------------------------------------------- R18.10
    col.rule("R18.10", "the printed source renders a tuple node as a tuple for every arity (trailing comma)", floor=1)
    _printed_tuple(prog, col, refs)
    from . import shapes
    shapes.r_raw_getitem_indexes_in_place(prog, col, refs, cat, "R18.15")
    col.rule("R18.16", "names generated for the printed program cannot shadow its inputs", floor=1)
    _generated_names_avoid_inputs(prog, col, refs)
    return col


def _printed_tuple(prog: Program, col: Collector, refs: Refs):
    """OpProgram.as_code prints every operation as `<printed op>(<args>...)`.  The tuple constructor is printed as the empty string,
    i.e. the tuple is rendered by the bare parentheses of the call template; `(v4)` is not a tuple, so the template must put a
    comma after the arguments (`(v4,)`), or every argument must carry its own trailing comma."""
    ac = prog.funcs.get("funsor.ops.program::OpProgram.as_code")
    if ac is None:
        raise AnalysisError("anchor OpProgram.as_code not found")
    # which helper prints the op, and does it print some op as ""?
    printers = set()
    for c in ast.walk(ac.node):
        if isinstance(c, ast.Call) and isinstance(c.func, ast.Name):
            r = refs.resolve(c.func)
            lk = prog.lookup(r) if r else None
            if lk and lk[0] == "func" and lk[1].module is ac.module and len(c.args) == 1:
                printers.add(lk[1].fq)
    empties = []
    for fq in printers:
        pf = prog.funcs[fq]
        for r in walk_no_nested(pf.node):
            if isinstance(r, ast.Return) and isinstance(r.value, ast.Constant) and r.value.value == "":
                empties.append((pf, r))
    if not empties:
        col.ok(f"{ac.fq}::tuple rendering", "no op is printed as the empty string: tuples are not rendered by the bare call parentheses", ac.loc(), nontrivial=False)
        return
    # the call template: a JoinedStr `{op}({args}...)`
    templates = []
    for js in ast.walk(ac.node):
        if isinstance(js, ast.JoinedStr):
            parts = js.values
            for i, v in enumerate(parts):
                if isinstance(v, ast.Constant) and isinstance(v.value, str) and v.value.startswith("(") and i >= 1 and isinstance(parts[i - 1], ast.FormattedValue):
                    templates.append((js, i))
    if not templates:
        col.unresolved(f"{ac.fq}::tuple rendering", "call template `{op}({args}...)` not found as an f-string", ac.loc())
        return
    for js, i in templates:
        parts = js.values
        # constant text after the last formatted value of the template
        tail = parts[-1].value if isinstance(parts[-1], ast.Constant) and isinstance(parts[-1].value, str) else ""
        args_fv = [p for p in parts[i:] if isinstance(p, ast.FormattedValue)]
        comma_in_template = tail.replace(" ", "").startswith(",)") or tail.replace(" ", "") == ",)"
        # or every argument carries its own trailing comma: args = "".join(f"v{a}," ...) / " ".join(f"v{a}," ...)
        own = False
        for fv in args_fv:
            if isinstance(fv.value, ast.Name):
                for st in walk_no_nested(ac.node):
                    if isinstance(st, ast.Assign) and any(isinstance(t, ast.Name) and t.id == fv.value.id for t in st.targets):
                        for x in ast.walk(st.value):
                            if isinstance(x, ast.JoinedStr) and x.values and isinstance(x.values[-1], ast.Constant) and str(x.values[-1].value).rstrip().endswith(","):
                                own = True
        if own:
            col.ok(f"{ac.fq}::tuple rendering", "every printed argument carries its own comma: `()`, `(v,)` and `(v, w,)` are tuples", ac.loc(js))
        elif comma_in_template:
            col.violation(f"{ac.fq}::tuple rendering", f"the tuple constructor is printed as the empty string and the call template `{norm(js)}` puts ONE comma after the joined arguments: "
                          "with no arguments it prints `(,)`, which is not Python (the source of a program containing the empty Tuple does not compile)", ac.loc(js))
        else:
            col.violation(f"{ac.fq}::tuple rendering", f"the tuple constructor is printed as the empty string, so a tuple is rendered by the parentheses of the call template `{norm(js)}`, "
                          "which puts no comma after the arguments: a one-component Tuple prints as `(v4)`, i.e. the bare value", ac.loc(js))


def _trace_record(prog: Program, col: Collector, refs: Refs):
    """In Op.__call__ the traced branch computes `result = fn(*A, **K)` and records (result, <op>, <args>) on the tape.  The
    program replays <op>(*<args>).  Everything the caller supplied - positional AND keyword arguments - must therefore flow
    into the record; parameters that only live in `kwargs` (ops.sum(x, axis=0)) are otherwise replaced by the op's defaults."""
    from ..dataflow import param_deps
    f = prog.funcs.get("funsor.ops.op::Op.__call__")
    if f is None:
        raise AnalysisError("anchor funsor.ops.op::Op.__call__ not found")
    va = f.node.args.vararg.arg if f.node.args.vararg else None
    kw = f.node.args.kwarg.arg if f.node.args.kwarg else None
    recs = []
    for n in walk_no_nested(f.node):
        if isinstance(n, ast.Call) and isinstance(n.func, ast.Attribute) and n.func.attr in ("setdefault", "__setitem__", "append") and n.args \
                and isinstance(n.args[-1], ast.Tuple) and len(n.args[-1].elts) == 3:
            recs.append(n)
        if isinstance(n, ast.Assign) and isinstance(n.targets[0], ast.Subscript) and isinstance(n.value, ast.Tuple) and len(n.value.elts) == 3:
            recs.append(n)
    if not recs or va is None or kw is None:
        col.unresolved(f"{f.fq}::trace record", "no (result, op, args) record found in Op.__call__", f.loc())
        return
    for rec in recs:
        tup = rec.args[-1] if isinstance(rec, ast.Call) else rec.value
        st = rec
        while not isinstance(st, ast.stmt):
            st = f.module.parent.get(st)
        deps = set()
        for e in tup.elts[1:]:
            deps |= param_deps(f, e, st)
        construct = f"{f.fq}::{norm(tup)}"
        missing = [p for p in (va, kw) if p not in deps]
        col.check(not missing, construct, f"the recorded op and operands depend on both *{va} and **{kw}",
                  f"the record `{norm(tup)}` does not depend on {' / '.join(('**' if p == kw else '*') + p for p in missing)} of the call: "
                  f"an op called with keyword parameters (ops.sum(x, axis=0), ops.clamp(x, min=a)) is traced as the default-parametrised op and the program computes something else",
                  f.loc(rec))
        # ... on EVERY path: each definition of the recorded op must itself be built from both (a shortcut `op = self` for calls
        # that "look" parameter-free records the default-parametrised op)
        if isinstance(tup.elts[1], ast.Name):
            for d in [x for x in walk_no_nested(f.node) if isinstance(x, ast.Assign) and any(isinstance(t, ast.Name) and t.id == tup.elts[1].id for t in x.targets)]:
                dd = param_deps(f, d.value, d)
                miss = [p for p in (va, kw) if p not in dd]
                col.check(not miss, f"{f.fq}::{norm(d)[:60]}", "this definition of the recorded op is built from the call's positional and keyword arguments",
                          f"on this path the recorded op is `{norm(d.value)[:40]}`, which does not depend on {' / '.join(('**' if p == kw else '*') + p for p in miss)}: parameters passed "
                          "with the call are not part of the record, so the traced program applies another op than the one that ran", f.loc(d))
        # positional and keyword parts of what the op is rebuilt from come from the SAME view of the call: either the call as written (the
        # *args / **kwargs parameters) or the bound signature (bound.args / bound.kwargs).  BoundArguments.kwargs holds keyword-only parameters
        # only, so a positional-or-keyword parameter passed by keyword (ops.sum(x, axis=0)) is in bound.args but neither in the raw positional
        # arguments nor in bound.kwargs: mixing the two views loses it.
        assigns_ = sorted([x for x in walk_no_nested(f.node) if isinstance(x, ast.Assign) and len(x.targets) == 1 and isinstance(x.targets[0], ast.Name)], key=lambda x: x.lineno)

        def view(e, line, depth=0):
            tags = set()
            if depth > 5:
                return {"?"}
            for y in ast.walk(e):
                if isinstance(y, ast.Attribute) and y.attr in ("args", "kwargs", "arguments") and isinstance(y.value, ast.Name):
                    d0 = [a for a in assigns_ if a.targets[0].id == y.value.id and a.lineno < line]
                    if d0 and isinstance(d0[-1].value, ast.Call) and norm(d0[-1].value.func).rsplit(".", 1)[-1] in ("bind", "bind_partial"):
                        tags.add("bound")
                        continue
                if isinstance(y, ast.Name) and isinstance(y.ctx, ast.Load):
                    par = f.module.parent.get(y)
                    if isinstance(par, ast.Attribute) and par.attr in ("args", "kwargs", "arguments", "arity", "signature", "defaults"):
                        continue
                    d0 = [a for a in assigns_ if a.targets[0].id == y.id and a.lineno < line]
                    if d0:
                        tags |= view(d0[-1].value, d0[-1].lineno, depth + 1)
                    elif y.id in (va, kw):
                        tags.add("raw")
            return tags
        if isinstance(tup.elts[1], ast.Name):
            for d in [x for x in assigns_ if x.targets[0].id == tup.elts[1].id]:
                alts = [d.value.body, d.value.orelse] if isinstance(d.value, ast.IfExp) else [d.value]
                tests = [d.value.test] if isinstance(d.value, ast.IfExp) else []
                for alt in alts + tests:
                    star = [a_.value for a_ in alt.args if isinstance(a_, ast.Starred)] if isinstance(alt, ast.Call) else []
                    dstar = [k_.value for k_ in alt.keywords if k_.arg is None] if isinstance(alt, ast.Call) else []
                    parts = (star + dstar) if isinstance(alt, ast.Call) else ([alt] if alt in tests else [])
                    if not parts:
                        continue
                    vs = [view(p_, d.lineno) for p_ in parts]
                    flat = set().union(*vs)
                    construct = f"{f.fq}::{norm(alt)[:50]}::one view of the call"
                    if "?" in flat or not flat:
                        col.unresolved(construct, "origin of the positional / keyword parts not traced", f.loc(d))
                    elif flat == {"bound"} or flat == {"raw"}:
                        col.ok(construct, f"positional and keyword parts both come from the {'bound signature' if flat == {'bound'} else 'call as written'}", f.loc(d))
                    else:
                        col.violation(construct, f"`{norm(alt)[:50]}` takes one part from the call as written (*{va} / **{kw}) and the other from the bound signature (bound.args / bound.kwargs): "
                                      "BoundArguments.kwargs holds keyword-only parameters only, so a positional-or-keyword parameter passed by keyword - ops.sum(x, axis=0), "
                                      "ops.clamp(x, max=0.25) - is in neither part and the op is recorded with its default", f.loc(d))
        # the parameters an op INSTANCE carries (ops.SumOp(0), node.op of a Unary) are merged into the call's arguments by a loop over
        # self.defaults; what the record is built from must be read after that merge
        selfn = f.positional[0]
        merges = [lp for lp in walk_no_nested(f.node) if isinstance(lp, ast.For) and any(
            isinstance(x, ast.Attribute) and x.attr == "defaults" and isinstance(x.value, ast.Name) and x.value.id == selfn for x in ast.walk(lp.iter))]
        if merges:
            merge_end = max(getattr(x, "end_lineno", x.lineno) for x in merges)
            defs_ = {}
            for st2 in walk_no_nested(f.node):
                if isinstance(st2, ast.Assign):
                    for tg in st2.targets:
                        for y in ast.walk(tg):
                            if isinstance(y, ast.Name) and isinstance(y.ctx, ast.Store):
                                defs_.setdefault(y.id, []).append(st2)
            early = []
            opexpr = tup.elts[1]
            names = {y.id for y in ast.walk(opexpr) if isinstance(y, ast.Name)}
            for nm in sorted(names):
                for d in defs_.get(nm, []):
                    if isinstance(opexpr, ast.Name) and nm == opexpr.id:
                        # the op is a local: look through its definition
                        for y in ast.walk(d.value):
                            if isinstance(y, ast.Name):
                                for d2 in defs_.get(y.id, []):
                                    if d2.lineno < merges[0].lineno and any(isinstance(z, ast.Name) and z.id not in (selfn,) for z in ast.walk(d2.value)) \
                                            and not (isinstance(d2.value, ast.Call) and norm(d2.value.func) == "type"):
                                        if any(isinstance(z, ast.Attribute) and z.attr in ("args", "kwargs", "arguments") for z in ast.walk(d2.value)):
                                            early.append((y.id, d2))
            col.check(not early, f"{f.fq}::record built after the instance parameters are merged",
                      "the recorded op is built from the arguments as they are after self.defaults were merged in",
                      f"`{early[0][0]}` is taken from the bound arguments at line {early[0][1].lineno}, BEFORE the parameters carried by the op instance (self.defaults) are merged in: "
                      "calling a parametrised instance such as ops.SumOp(0)(x) is traced as the default-parametrised op" if early else "", f.loc(rec))


def _popped_values(prog: Program, col: Collector):
    """Dead-store analysis restricted to values removed from a collection (`v = xs.pop(...)`, `popitem`, `popleft`): if control
    can go from the removal to another assignment of `v`, or to the end of the function, without reading `v`, the removed
    element - an operand of the expression being compiled - is silently dropped from the program."""
    import networkx as nx
    from ..cfg import CFG
    mods = [m for m in ("funsor.compiler", "funsor.ops.program", "funsor.ops.tracer") if m in prog.modules]
    for f in prog.funcs.values():
        if f.module.name not in mods or isinstance(f.node, ast.Lambda):
            continue
        pops = []
        for n in walk_no_nested(f.node):
            if isinstance(n, ast.Assign) and len(n.targets) == 1 and isinstance(n.targets[0], ast.Name) and isinstance(n.value, ast.Call) \
                    and isinstance(n.value.func, ast.Attribute) and n.value.func.attr in ("pop", "popitem", "popleft"):
                pops.append(n)
        if not pops:
            col.ok(f"{f.fq}::no removal from a work list", "nothing is popped", f.loc(), nontrivial=False)
            continue
        cfg = CFG(f.node)
        for p_ in pops:
            name = p_.targets[0].id
            uses, defs = set(), set()
            for node in cfg.nodes:
                a = node.ast
                if a is None or node.kind in ("entry", "exit", "raise"):
                    continue
                # the part of the statement evaluated at this node: headers of compound statements only
                exprs = [a.test] if isinstance(a, (ast.If, ast.While)) and node.kind == "test" else [a.iter] if isinstance(a, ast.For) else [a]
                if any(isinstance(x, ast.Name) and x.id == name and isinstance(x.ctx, ast.Load) for e in exprs for x in ast.walk(e)):
                    uses.add(node.idx)
                elif any(isinstance(x, ast.Name) and x.id == name and isinstance(x.ctx, ast.Store) for e in exprs for x in ast.walk(e)):
                    defs.add(node.idx)
            starts = [n.idx for n in cfg.nodes_for(p_)]
            g = cfg.g.subgraph([n for n in cfg.g.nodes if n not in uses or n in starts])
            lost_to = None
            for s0 in starts:
                for succ in g.successors(s0):
                    reach = nx.descendants(g, succ) | {succ}
                    hit = (reach & defs) | ({cfg.exit.idx} & reach)
                    if hit:
                        lost_to = sorted(hit)[0]
            construct = f"{f.fq}::{norm(p_)}"
            if lost_to is None:
                col.ok(construct, f"`{name}` is read on every path before it is re-assigned or the function ends", f.loc(p_))
            else:
                tgt = cfg.nodes[lost_to]
                where = "the end of the function" if tgt.kind == "exit" else f"the assignment at line {getattr(tgt.ast, 'lineno', '?')}"
                col.violation(construct, f"the element removed by `{norm(p_.value)}` can reach {where} without `{name}` being read: an operand is dropped from the compiled program "
                              "(for some numbers of terms)", f.loc(p_))


# ---------------------------------------------------------------------- R18.11
def _program_lists(f: Func, refs: Refs):
    """names of the lists handed to the OpProgram constructor in `f`"""
    out = []
    for c in ast.walk(f.node):
        if isinstance(c, ast.Call) and (refs.resolve(c.func) if isinstance(c.func, (ast.Name, ast.Attribute)) else "") == "funsor.ops.program.OpProgram":
            out = [a.id for a in c.args if isinstance(a, ast.Name)]
    return out


def _alloc_emit_pairing(prog: Program, col: Collector, refs: Refs):
    """OpProgram.__call__ gives the i-th value of constants + inputs + operation results the number i.  The writers allocate the
    numbers themselves (`ids[x] = len(ids)`); a number allocated on a path that appends nothing to the constants / inputs /
    operations lists shifts every later number by one (the program then reads the wrong slot or runs off the end)."""
    n = 0
    for fq in ("funsor.compiler::compile_funsor", "funsor.ops.tracer::trace_function"):
        f = require_func(prog, fq)
        lists = set(_program_lists(f, refs))
        if len(lists) < 3:
            raise AnalysisError(f"{fq}: the OpProgram constructor call with three local lists was not found")

        def is_alloc(st):
            return isinstance(st, ast.Assign) and len(st.targets) == 1 and isinstance(st.targets[0], ast.Subscript) and isinstance(st.targets[0].value, ast.Name) \
                and isinstance(st.value, ast.Call) and isinstance(st.value.func, ast.Name) and st.value.func.id == "len" and len(st.value.args) == 1 \
                and isinstance(st.value.args[0], ast.Name) and st.value.args[0].id == st.targets[0].value.id

        def is_emit(st):
            return isinstance(st, ast.Expr) and isinstance(st.value, ast.Call) and isinstance(st.value.func, ast.Attribute) and st.value.func.attr == "append" \
                and isinstance(st.value.func.value, ast.Name) and st.value.func.value.id in lists

        def outcomes(stmts):
            """set of (allocations, emissions, status, witness line) over the paths through `stmts`"""
            cur = {(0, 0, "fall", 0)}
            for st in stmts:
                nxt = set()
                for a, e, status, w in cur:
                    if status != "fall":
                        nxt.add((a, e, status, w))
                        continue
                    if is_alloc(st):
                        nxt.add((a + 1, e, "fall", st.lineno))
                    elif is_emit(st):
                        nxt.add((a, e + 1, "fall", w))
                    elif isinstance(st, ast.If):
                        for branch in (st.body, st.orelse):
                            for a2, e2, s2, w2 in outcomes(branch):
                                nxt.add((a + a2, e + e2, s2, w2 or w or (branch[0].lineno if branch else st.lineno)))
                    elif isinstance(st, ast.Continue):
                        nxt.add((a, e, "continue", w or st.lineno))
                    elif isinstance(st, ast.Break):
                        nxt.add((a, e, "break", w))
                    elif isinstance(st, ast.Raise):
                        nxt.add((a, e, "raise", w))
                    elif isinstance(st, ast.Return):
                        nxt.add((a, e, "return", w))
                    elif isinstance(st, (ast.For, ast.While, ast.Try, ast.With)):
                        inner = [x for x in ast.walk(st) if is_alloc(x) or is_emit(x)]
                        nxt.add((a, e, "opaque" if inner else "fall", w))
                    else:
                        nxt.add((a, e, "fall", w))
                cur = nxt
            return cur

        for lp in [x for x in walk_no_nested(f.node) if isinstance(x, ast.For)]:
            if not any(is_alloc(x) for x in ast.walk(lp)):
                continue
            n += 1
            construct = f"{f.fq}::for {norm(lp.target)} in {norm(lp.iter)}"
            outs = outcomes(lp.body)
            if any(s_ == "opaque" for _, _, s_, _ in outs):
                col.unresolved(construct, "allocation / emission inside a nested compound statement", f.loc(lp))
                continue
            bad = sorted((a, e, s_, w) for a, e, s_, w in outs if s_ != "raise" and a != e)
            if bad:
                a, e, s_, w = bad[0]
                col.violation(construct, f"on a path through the loop body ({s_} at/after line {w}) {a} value number(s) are allocated but {e} slot(s) are appended to "
                              f"{sorted(lists)}: every later value is numbered one higher than the slot it occupies", f.loc(lp), path=f"alloc={a} emit={e} exit={s_} line={w}")
            else:
                col.ok(construct, f"{len(outs)} path(s) through the body: allocations and emitted slots agree on each", f.loc(lp))
    col.cur.analysed["numbering_loops"] = n


# ---------------------------------------------------------------------- R18.12
def _trace_order(prog: Program, col: Collector, refs: Refs):
    f = require_func(prog, "funsor.ops.tracer::trace_function")
    # the tape: `with trace_ops(...) as <tape>`
    tape = None
    for w in walk_no_nested(f.node):
        if isinstance(w, ast.With):
            for it in w.items:
                if isinstance(it.optional_vars, ast.Name) and isinstance(it.context_expr, ast.Call) and norm(it.context_expr.func).endswith("trace_ops"):
                    tape = it.optional_vars.id
    if tape is None:
        raise AnalysisError("trace_function: `with trace_ops(...) as <tape>` not found")
    lists = set(_program_lists(f, refs))
    # the loop that numbers operations: contains `<operations>.append`
    loops = [lp for lp in walk_no_nested(f.node) if isinstance(lp, ast.For)
             and any(isinstance(x, ast.Call) and isinstance(x.func, ast.Attribute) and x.func.attr == "append" and isinstance(x.func.value, ast.Name)
                     and x.func.value.id in lists and isinstance(x.args[0] if x.args else None, ast.Tuple) for x in ast.walk(lp))]
    if len(loops) != 1:
        col.unresolved(f"{f.fq}::operation numbering loop", f"expected one loop appending (op, arg_ids) pairs, found {len(loops)}", f.loc())
        return
    lp = loops[0]

    def is_tape_iter(e, want_reversed=None):
        """(matches, reversed?) for tape / tape.values() / tape.items() possibly under reversed(...)/list(...)"""
        rev = False
        while isinstance(e, ast.Call) and isinstance(e.func, ast.Name) and e.func.id in ("reversed", "list", "tuple") and len(e.args) == 1:
            if e.func.id == "reversed":
                rev = not rev
            e = e.args[0]
        if isinstance(e, ast.Call) and isinstance(e.func, ast.Attribute) and e.func.attr in ("values", "items", "keys"):
            e = e.func.value
        return (isinstance(e, ast.Name) and e.id == tape), rev

    def provenance(e, depth=0):
        """'execution' | 'discovery' | None (unknown) for the order of the sequence `e`"""
        if depth > 4:
            return None
        ok, rev = is_tape_iter(e)
        if ok:
            return "execution" if not rev else "reverse-execution"
        inner = e
        rev = False
        while isinstance(inner, ast.Call) and isinstance(inner.func, ast.Name) and inner.func.id in ("reversed", "list", "tuple") and len(inner.args) == 1:
            if inner.func.id == "reversed":
                rev = not rev
            inner = inner.args[0]
        if isinstance(inner, ast.Call) and isinstance(inner.func, ast.Attribute) and inner.func.attr in ("values", "items", "keys"):
            inner = inner.func.value
        if isinstance(inner, (ast.ListComp, ast.GeneratorExp)) and len(inner.generators) == 1:
            # only entries without an op (leaves: constants and inputs, which depend on nothing) - their order is immaterial
            if any(isinstance(c, ast.Compare) and len(c.ops) == 1 and isinstance(c.ops[0], ast.Is) and isinstance(c.comparators[0], ast.Constant)
                   and c.comparators[0].value is None for c in inner.generators[0].ifs):
                return "leaves"
            p = provenance(inner.generators[0].iter, depth + 1)
            return p if not rev else {"execution": "reverse-execution", "reverse-execution": "execution"}.get(p, p)
        if isinstance(inner, ast.Name):
            name = inner.id
            # how is the container filled?
            kinds = set()
            for st in walk_no_nested(f.node):
                if isinstance(st, ast.Assign) and any(isinstance(t, ast.Name) and t.id == name for t in st.targets):
                    if isinstance(st.value, (ast.List, ast.Dict)) or (isinstance(st.value, ast.Call) and norm(st.value.func) in ("OrderedDict", "dict", "list")
                                                                         and (not st.value.args or isinstance(st.value.args[0], (ast.Dict, ast.List, ast.Tuple)))):
                        # a display / constructor with initial content (the root) followed by in-loop insertions: judged below
                        continue
                    kinds.add(provenance(st.value, depth + 1))
                if isinstance(st, ast.AugAssign) and isinstance(st.target, ast.Name) and st.target.id == name:
                    kinds.add(provenance(st.value, depth + 1))
            for outer in walk_no_nested(f.node):
                if not isinstance(outer, ast.For):
                    continue
                fills = [x for x in ast.walk(outer) if (isinstance(x, ast.Call) and isinstance(x.func, ast.Attribute) and x.func.attr in ("append", "setdefault")
                                                       and isinstance(x.func.value, ast.Name) and x.func.value.id == name)
                         or (isinstance(x, ast.Assign) and any(isinstance(t, ast.Subscript) and isinstance(t.value, ast.Name) and t.value.id == name for t in x.targets))]
                if not fills:
                    continue
                ok2, rev2 = is_tape_iter(outer.iter)
                if ok2 and not rev2:
                    kinds.add("execution")
                elif ok2 and rev2:
                    # filled while walking the tape backwards: insertion order is the order of discovery from the root
                    kinds.add("discovery")
                else:
                    kinds.add(None)
            kinds.discard("leaves")
            if kinds == {"execution"}:
                return "execution" if not rev else "reverse-execution"
            if "discovery" in kinds:
                return "discovery"
            return None
        return None

    prov = provenance(lp.iter)
    construct = f"{f.fq}::order of `{norm(lp.iter)}`"
    if prov == "execution":
        col.ok(construct, "operations are numbered in the order in which the tape recorded them (every operand was computed before its use)", f.loc(lp))
    elif prov in ("discovery", "reverse-execution"):
        col.violation(construct, "the sequence that is numbered is (the reverse of) the order in which nodes were discovered walking back from the root, which is not a "
                      "topological order of a DAG: when a shared value is the earlier operand of the root, its consumer is numbered before it "
                      "(tracing `add(a := mul(x, x), exp(a))` fails with KeyError)", f.loc(lp))
    else:
        col.unresolved(construct, "cannot tell in which order the numbered sequence is", f.loc(lp))


# ---------------------------------------------------------------------- R18.16 generated names do not shadow the inputs


def _generated_names_avoid_inputs(prog: Program, col: Collector, refs: Refs):
    """as_code prints a function whose parameters are the program's inputs and whose locals are generated names.  The inputs are
    copied into generated locals one after the other, so a generated name that equals an input name overwrites a parameter that is
    still to be read.  The generated names must therefore be derived from something that was tested against `self.inputs` - a fixed
    literal prefix cannot be safe for every input name."""
    code = require_func(prog, "funsor.ops.program::OpProgram.as_code")
    selfn = code.positional[0]
    # the f-strings that print an assignment `<name> = ...` or `return <name>`
    n = 0
    bad = None
    for js in [x for x in ast.walk(code.node) if isinstance(x, ast.JoinedStr)]:
        vals = js.values
        # name part: a literal ending in an identifier character directly followed by a formatted index
        for a, b in zip(vals, vals[1:]):
            if isinstance(a, ast.Constant) and isinstance(a.value, str) and isinstance(b, ast.FormattedValue):
                tail = a.value.rstrip()
                if tail == a.value and tail and (tail[-1].isalnum() or tail[-1] == "_") and not tail.endswith("return"):
                    # e.g. "    v" + {i}: the literal supplies the name's prefix
                    n += 1
                    bad = bad or (js, tail.split()[-1] if tail.split() else tail)
    # a computed prefix: a local compared against self.inputs in a loop / test
    computed = False
    for x in ast.walk(code.node):
        if isinstance(x, (ast.While, ast.If)) and any(isinstance(y, ast.Attribute) and y.attr == "inputs" and isinstance(y.value, ast.Name) and y.value.id == selfn for y in ast.walk(x.test)):
            computed = True
    if bad is None and computed:
        col.ok(f"{code.fq}::generated names", "the prefix of the generated names is chosen after testing it against self.inputs", code.loc())
    elif bad is None:
        col.unresolved(f"{code.fq}::generated names", "cannot find how local names are generated", code.loc())
    else:
        col.violation(f"{code.fq}::generated names", f"locals are named `{bad[1]}<i>` with a fixed prefix while the parameters of the printed function carry the user's input names: an input "
                      f"called `{bad[1]}0` or `{bad[1]}1` is overwritten by `{bad[1]}0 = <first input>` before it is read, so the printed source computes something else than the "
                      "program (x ** y with inputs named v1, v0 prints as v0 = v1; v1 = v0)", code.loc(bad[0]))
