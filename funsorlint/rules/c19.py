"""C19 - conversions and re-alignment never move data to the wrong name (structural clauses only).

The property as a whole (round trips of arrays through to_funsor / to_data for every rank, event rank and placement of names)
quantifies over runtime shapes and is NOT decided.  Decided are the clauses whose truth is in the shape of the code:
the direction of every permutation built from two layouts, the construction of the inputs of an aligned result, the integer
arithmetic that relates negative batch dims to positions (evaluated by the analyser's own integer evaluator on a grid), and the
coverage of `materialize`.  Nothing of the repository is executed.
"""
from __future__ import annotations

import ast
import itertools
from typing import Dict, List, Optional

from ..catalogue import Catalogue
from ..model import AnalysisError, Func, Program, norm
from ..report import Collector
from .common import Refs, require_func, walk_no_nested

EXPLANATION = (
    "Structural clauses of C19. R19.1: wherever an array is permuted with a permutation of the form [S.index(e) for e in T], S is "
    "the CURRENT layout of that array (a sequence read off the `.inputs` of the tensor whose data it is, in order, never sorted or "
    "otherwise re-ordered) and T is the target order - the inverse permutation moves data under the wrong name whenever the "
    "permutation is not an involution (three or more inputs). R19.2: the inputs of an aligned result are built as OrderedDict over "
    "the requested names (sizes looked up in the term's own inputs) followed by update(<own inputs>), in Tensor.align, "
    "Gaussian.align and Align.__init__ alike. R19.3: in tensor_to_funsor the number of batch dims is -min(keys) capped by the rank, "
    "and the key looked up for batch position p of an array of rank R with event rank E is p - (R - E); in tensor_to_data the batch "
    "shape has -min(dims) entries - all three evaluated on a grid of small ranks / key sets by the analyser's integer evaluator. "
    "R19.4: materialize substitutes an arange for EVERY integer-typed input of its argument, named and sized after that input."
    ' R19.4 (second clause): an index range is substituted only for scalar-shaped integer inputs. R19.10 (= C04 R04.5): the Number and the Tensor branch of an eager_subs compute the same function of the index. R19.11 (= C02 R02.23): Binary rules, among them Binary(op, Align, Align), re-apply the op with the operands in the order received.'
)
ASSUMPTIONS = ["value-level round trips (size-1 squeezing, dtype handling, reshape of packed batch dims) are not decided",
               "ops.permute(x, p) places source axis p[j] at position j (numpy.transpose / torch.permute semantics)"]
RULE_TEXT = "one obligation per permutation site, per aligned-inputs construction, per integer expression, per materialize loop"

REORDERING = ("sorted", "reversed", "set", "frozenset")


def _defs(f: Func) -> Dict[str, List[ast.AST]]:
    out: Dict[str, List[ast.AST]] = {}
    for st in walk_no_nested(f.node):
        if isinstance(st, ast.Assign) and len(st.targets) == 1 and isinstance(st.targets[0], ast.Name):
            out.setdefault(st.targets[0].id, []).append(st.value)
    return out


def _layout_of(e: ast.AST, defs, depth=0):
    """('layout', X) if `e` lists something per input of X in the order of X.inputs; ('reordered', why) if it goes through a sort;
    None if unknown."""
    if depth > 5:
        return None
    if isinstance(e, ast.Name):
        ds = defs.get(e.id, [])
        if len(ds) == 1:
            return _layout_of(ds[0], defs, depth + 1)
        return None
    if isinstance(e, ast.Call) and isinstance(e.func, ast.Name) and e.func.id in REORDERING:
        return ("reordered", e.func.id)
    if isinstance(e, ast.Call) and isinstance(e.func, ast.Name) and e.func.id in ("tuple", "list") and len(e.args) == 1:
        return _layout_of(e.args[0], defs, depth + 1)
    if isinstance(e, ast.Attribute) and e.attr == "inputs":
        return ("layout", norm(e.value))
    if isinstance(e, ast.Call) and isinstance(e.func, ast.Attribute) and e.func.attr in ("keys", "items", "values") and isinstance(e.func.value, ast.Attribute) \
            and e.func.value.attr == "inputs":
        return ("layout", norm(e.func.value.value))
    if isinstance(e, (ast.ListComp, ast.GeneratorExp)) and len(e.generators) == 1 and not e.generators[0].ifs:
        return _layout_of(e.generators[0].iter, defs, depth + 1)
    return None


def _owner_of_data(e: ast.AST, defs, depth=0) -> Optional[str]:
    """the tensor X such that `e` is X.data (possibly reshaped without moving axes)"""
    if depth > 5:
        return None
    if isinstance(e, ast.Attribute) and e.attr == "data":
        return norm(e.value)
    if isinstance(e, ast.Name):
        ds = defs.get(e.id, [])
        for d in ds:
            o = _owner_of_data(d, defs, depth + 1)
            if o is not None:
                return o
        return None
    if isinstance(e, ast.Call) and isinstance(e.func, ast.Attribute) and e.func.attr == "reshape":
        return _owner_of_data(e.func.value, defs, depth + 1)
    return None


def _permutation_sites(prog: Program, col: Collector, refs: Refs):
    n = 0
    for f in prog.funcs.values():
        if isinstance(f.node, ast.Lambda):
            continue
        defs = None
        for c in walk_no_nested(f.node):
            if not isinstance(c, ast.Call):
                continue
            name = (refs.resolve(c.func) or norm(c.func)).rsplit(".", 1)[-1]
            if name not in ("permute", "transpose") or not c.args:
                continue
            data_e, perm_e = (c.args[0], c.args[1]) if len(c.args) >= 2 else (c.func.value if isinstance(c.func, ast.Attribute) else None, c.args[0])
            if data_e is None:
                continue
            defs = defs or _defs(f)
            # the comprehension [S.index(e) for e in T] somewhere in the definition of the permutation
            cands = [perm_e]
            seen = set()
            comp = None
            while cands:
                e = cands.pop()
                for x in ast.walk(e):
                    if isinstance(x, (ast.ListComp, ast.GeneratorExp)) and isinstance(x.elt, ast.Call) and isinstance(x.elt.func, ast.Attribute) and x.elt.func.attr == "index" \
                            and len(x.elt.args) == 1 and isinstance(x.generators[0].target, ast.Name) and norm(x.elt.args[0]) == x.generators[0].target.id:
                        comp = x
                    if isinstance(x, ast.Name) and x.id in defs and x.id not in seen:
                        seen.add(x.id)
                        cands.extend(defs[x.id])
            if comp is None:
                continue
            n += 1
            S, T = comp.elt.func.value, comp.generators[0].iter
            owner = _owner_of_data(data_e, defs)
            ls = _layout_of(S, defs)
            construct = f"{f.fq}::{norm(comp)[:70]}"
            lt0 = _layout_of(T, defs)
            if ls is None and owner is not None and lt0 == ("layout", owner):
                col.violation(construct, f"`{norm(T)}` is the current layout of `{norm(data_e)}` (read off `{owner}.inputs`) but it is the sequence that is iterated, and positions are "
                              f"looked up in `{norm(S)}`, the target order: this is the inverse of the permutation needed (ops.permute puts source axis p[j] at position j), so with "
                              "three or more inputs data end up under another input's name", f.loc(c))
                continue
            if ls is None or owner is None:
                col.unresolved(construct, f"cannot relate `{norm(S)}` to the layout of `{norm(data_e)}`", f.loc(c))
                continue
            if ls[0] == "reordered":
                lt = _layout_of(T, defs)
                col.violation(construct, f"`{norm(S)}` is a re-ordered sequence ({ls[1]}(...)), not the current layout of `{norm(data_e)}`"
                              + (f" - the current layout is `{norm(T)}`, which is iterated instead" if lt and lt[0] == "layout" else "")
                              + ": the permutation is the inverse of the one needed (position j of the result receives the source axis S.index(T[j]) only if S is "
                              "the source order), so with three or more inputs data end up under another input's name", f.loc(c))
                continue
            col.check(ls[1] == owner, construct, f"`{norm(S)}` is the layout of `{owner}`, whose data is permuted; `{norm(T)}` is the target order",
                      f"`{norm(S)}` lists the inputs of `{ls[1]}` but the array permuted is the data of `{owner}`", f.loc(c))
    col.cur.analysed["permutation_sites"] = n


def _aligned_inputs(prog: Program, col: Collector, refs: Refs):
    """inputs = OrderedDict((name, X.inputs[name]) for name in names); inputs.update(X.inputs)"""
    n = 0
    sites = []
    for fq in ("funsor.tensor::Tensor.align", "funsor.gaussian::Gaussian.align", "funsor.terms::Align.__init__"):
        f = prog.funcs.get(fq)
        if f is None:
            raise AnalysisError(f"anchor {fq} not found")
        sites.append(f)
    for f in sites:
        namesp = f.positional[-1]
        own = f"{f.positional[0]}.inputs" if f.name == "align" else f"{f.positional[1]}.inputs"
        construct = f"{f.fq}::inputs of the aligned result"
        n += 1
        first = None
        for st in walk_no_nested(f.node):
            if isinstance(st, ast.Assign) and len(st.targets) == 1 and isinstance(st.targets[0], ast.Name) and isinstance(st.value, ast.Call) \
                    and (refs.resolve(st.value.func) or norm(st.value.func)).endswith("OrderedDict") and st.value.args and isinstance(st.value.args[0], (ast.GeneratorExp, ast.ListComp)):
                g = st.value.args[0]
                if isinstance(g.generators[0].iter, ast.Name) and g.generators[0].iter.id == namesp and not g.generators[0].ifs:
                    first = (st, g)
        if first is None:
            col.violation(construct, f"the inputs are not started from the requested `{namesp}` in order (OrderedDict over `{namesp}` without a filter)", f.loc())
            continue
        st, g = first
        var = st.targets[0].id
        tv = g.generators[0].target.id if isinstance(g.generators[0].target, ast.Name) else None
        elt_ok = isinstance(g.elt, ast.Tuple) and len(g.elt.elts) == 2 and norm(g.elt.elts[0]) == tv and norm(g.elt.elts[1]) == f"{own}[{tv}]"
        upd = [c for c in walk_no_nested(f.node) if isinstance(c, ast.Call) and isinstance(c.func, ast.Attribute) and c.func.attr == "update" and norm(c.func.value) == var
               and len(c.args) == 1 and norm(c.args[0]) == own and c.lineno > st.lineno]
        other_writes = [x for x in walk_no_nested(f.node) if isinstance(x, ast.Subscript) and isinstance(x.ctx, (ast.Store, ast.Del)) and norm(x.value) == var]
        col.check(elt_ok and bool(upd) and not other_writes, construct, f"OrderedDict((name, {own}[name]) for name in {namesp}) then .update({own})",
                  f"the inputs of the aligned result are not `{namesp}` (each with its size from `{own}`) followed by the remaining inputs of `{own}`: "
                  + ("the element is `" + norm(g.elt) + "`" if not elt_ok else "the remaining inputs are not appended with update(" + own + ")" if not upd else "the mapping is edited afterwards")
                  + " - the declared order / sizes then disagree with the layout the data are permuted to", f.loc(st))
    col.cur.analysed["aligned_input_constructions"] = n


def _integer_clauses(prog: Program, col: Collector, refs: Refs):
    from .kernels import _eval_int
    from .c04 import _NoEval
    f = require_func(prog, "funsor.tensor::tensor_to_funsor")
    xp = f.positional[0]
    d2n = f.positional[2] if len(f.positional) > 2 else "dim_to_name"
    # (a) batch_ndims
    asg = [st for st in walk_no_nested(f.node) if isinstance(st, ast.Assign) and len(st.targets) == 1 and isinstance(st.targets[0], ast.Name) and st.targets[0].id == "batch_ndims"]
    if len(asg) != 1:
        col.unresolved(f"{f.fq}::batch_ndims", "no single definition of batch_ndims", f.loc())
    else:
        bad = None
        tried = 0
        try:
            for rank in range(0, 6):
                for k in range(1, 5):
                    for keys in itertools.combinations(range(-4, 0), k):
                        env = {f"len({xp}.shape)": rank, f"min({d2n}.keys())": min(keys), f"max({d2n}.keys())": max(keys), f"min({d2n})": min(keys), f"max({d2n})": max(keys),
                               f"len({d2n})": len(keys)}
                        v = _eval_int(asg[0].value, env)
                        tried += 1
                        want = min(-min(keys), rank)
                        if v != want and bad is None:
                            bad = (keys, rank, v, want)
            col.check(bad is None, f"{f.fq}::{norm(asg[0])[:60]}", f"= min(-min(keys), rank) in {tried} cases",
                      f"for dim_to_name keys {bad[0]} and an array of rank {bad[1]} the number of batch dims comes out {bad[2]}, but the leftmost named dim is {min(bad[0])}, i.e. "
                      f"{bad[3]} batch dims: the event shape is cut at the wrong place and named dims fall into the output" if bad else "", f.loc(asg[0]))
        except _NoEval as ex:
            col.unresolved(f"{f.fq}::batch_ndims", f"not evaluated ({ex})", f.loc(asg[0]))
    # (b) the key looked up for batch position p
    gets = [c for c in walk_no_nested(f.node) if isinstance(c, ast.Call) and isinstance(c.func, ast.Attribute) and c.func.attr == "get" and norm(c.func.value) == d2n and c.args]
    loops = [lp for lp in walk_no_nested(f.node) if isinstance(lp, ast.For) and any(g in list(ast.walk(lp)) for g in gets)]
    if not gets or not loops:
        col.unresolved(f"{f.fq}::key of a batch position", "lookup `dim_to_name.get(...)` inside the packing loop not found", f.loc())
    else:
        lp, g = loops[0], gets[0]
        pv = lp.target.elts[0].id if isinstance(lp.target, ast.Tuple) and isinstance(lp.target.elts[0], ast.Name) else (lp.target.id if isinstance(lp.target, ast.Name) else None)
        outp = f.positional[1] if len(f.positional) > 1 else "output"
        bad = None
        tried = 0
        try:
            for R in range(1, 6):
                for E in range(0, R):
                    for p in range(0, R - E):
                        env = {pv: p, f"len({xp}.shape)": R, f"len({outp}.shape)": E}
                        v = _eval_int(g.args[0], env)
                        tried += 1
                        if v != p - (R - E) and bad is None:
                            bad = (R, E, p, v)
            col.check(bad is None, f"{f.fq}::{norm(g)[:60]}", f"batch position p of rank R, event rank E is looked up under p - (R - E) ({tried} cases)",
                      f"for rank {bad[0]}, event rank {bad[1]} the batch position {bad[2]} is looked up under key {bad[3]} instead of {bad[2] - (bad[0] - bad[1])}: every dim gets "
                      "the name of a neighbouring dim" if bad else "", f.loc(g))
        except _NoEval as ex:
            col.unresolved(f"{f.fq}::key of a batch position", f"not evaluated ({ex})", f.loc(g))
    # (c) tensor_to_data: length of the batch shape
    t = require_func(prog, "funsor.tensor::tensor_to_data")
    bs = [st for st in walk_no_nested(t.node) if isinstance(st, ast.Assign) and len(st.targets) == 1 and isinstance(st.targets[0], ast.Name) and isinstance(st.value, ast.BinOp)
          and isinstance(st.value.op, ast.Mult) and isinstance(st.value.left, ast.List) and len(st.value.left.elts) == 1 and norm(st.value.left.elts[0]) == "1"]
    if len(bs) != 1:
        col.unresolved(f"{t.fq}::batch shape", "`[1] * n` not found", t.loc())
    else:
        bad = None
        try:
            for k in range(1, 5):
                for keys in itertools.combinations(range(-4, 0), k):
                    names = {x.id for x in ast.walk(bs[0].value.right) if isinstance(x, ast.Name)}
                    env = {}
                    for nm in names:
                        env[f"min({nm})"] = min(keys)
                        env[f"max({nm})"] = max(keys)
                        env[f"len({nm})"] = len(keys)
                    v = _eval_int(bs[0].value.right, env)
                    if v != -min(keys) and bad is None:
                        bad = (keys, v)
            col.check(bad is None, f"{t.fq}::{norm(bs[0])[:60]}", "the batch shape has -min(dims) entries (one per position up to the leftmost named dim)",
                      f"for target dims {bad[0]} the batch shape gets {bad[1]} entries instead of {-min(bad[0])}: the leftmost dims do not fit / are shifted" if bad else "", t.loc(bs[0]))
        except _NoEval as ex:
            col.unresolved(f"{t.fq}::batch shape", f"not evaluated ({ex})", t.loc(bs[0]))


def _materialize(prog: Program, col: Collector, refs: Refs):
    f = require_func(prog, "funsor.tensor::Tensor.materialize")
    xp = f.positional[1]
    loops = [lp for lp in walk_no_nested(f.node) if isinstance(lp, ast.For) and isinstance(lp.iter, ast.Call) and isinstance(lp.iter.func, ast.Attribute)
             and lp.iter.func.attr == "items" and norm(lp.iter.func.value) == f"{xp}.inputs"]
    construct = f"{f.fq}::loop over the inputs"
    if len(loops) != 1 or not (isinstance(loops[0].target, ast.Tuple) and len(loops[0].target.elts) == 2):
        col.violation(construct, f"materialize does not loop over all of `{xp}.inputs.items()`", f.loc())
        return
    lp = loops[0]
    name_v, dom_v = (e.id for e in lp.target.elts)
    apps = [c for c in ast.walk(lp) if isinstance(c, ast.Call) and isinstance(c.func, ast.Attribute) and c.func.attr == "append" and c.args and isinstance(c.args[0], ast.Tuple)
            and len(c.args[0].elts) == 2]
    ok = False
    why = "no (name, arange) pair is appended"
    for a in apps:
        key, val = a.args[0].elts
        ar = isinstance(val, ast.Call) and isinstance(val.func, ast.Attribute) and val.func.attr == "new_arange" and len(val.args) >= 2
        if norm(key) == name_v and ar and norm(val.args[0]) == name_v and norm(val.args[1]) == f"{dom_v}.dtype":
            # guards around the append: only a test of the dtype being an int
            guards = [g for g in f.module.ancestors(a) if isinstance(g, ast.If) and any(g is y for y in ast.walk(lp))]
            atoms = [at for g in guards for at in (g.test.values if isinstance(g.test, ast.BoolOp) and isinstance(g.test.op, ast.And) else [g.test])]

            def is_dtype_test(t):
                return isinstance(t, ast.Call) and isinstance(t.func, ast.Name) and t.func.id == "isinstance" and norm(t.args[0]) == f"{dom_v}.dtype" and norm(t.args[1]) == "int"

            def is_scalar_test(t):
                sh = f"{dom_v}.shape"
                return norm(t) in (f"not {sh}", f"{sh} == ()", f"() == {sh}", f"len({sh}) == 0", f"not len({sh})", f"{dom_v}.num_elements == 1")
            only_known = all(is_dtype_test(t) or is_scalar_test(t) for t in atoms) and any(is_dtype_test(t) for t in atoms)
            ok = only_known and not any(isinstance(x, (ast.Break, ast.Continue, ast.Return)) for x in ast.walk(lp))
            why = "the append is skipped for some integer inputs" if not ok else ""
            if ok and not any(is_scalar_test(t) for t in atoms):
                # an index range over Bint[n] can only stand for a SCALAR bounded integer
                col.violation(f"{f.fq}::array-valued integer inputs", f"`new_arange({name_v}, {dom_v}.dtype)` (a scalar index range of output Bint[n]) is substituted for every input whose dtype is "
                              f"an int, also for one with a non-empty `{dom_v}.shape`: the input silently changes from an integer array to a scalar and the function's output shape with it "
                              "(materialize(Variable('v', Array[3, (2,)])) is an arange over v: Bint[3])", f.loc(a))
            elif ok:
                col.ok(f"{f.fq}::array-valued integer inputs", "only scalar-shaped integer inputs are replaced by an index range", f.loc(a))
        elif norm(key) == name_v:
            why = f"the value substituted for `{name_v}` is `{norm(val)[:40]}`, not new_arange({name_v}, {dom_v}.dtype)"
    col.check(ok, construct, "every integer-typed input is substituted by an arange over its own name and size",
              f"{why}: a lazy integer input is left in place or replaced by an index range of another name / size, so the materialised function differs", f.loc(lp))


def _packed_in_layout_order(prog: Program, col: Collector, refs: Refs):
    """tensor_to_funsor wraps the array as it is (only size-1 dims are dropped), so the inputs it declares must be listed in the order
    of the array's dims: the loop that fills the inputs mapping walks the positions of `x.shape`.  Walking the user's dim_to_name
    mapping instead declares the inputs in whatever order the mapping was written in, while the data keep their layout."""
    f = require_func(prog, "funsor.tensor::tensor_to_funsor")
    xp = f.positional[0]
    rets = [r for r in walk_no_nested(f.node) if isinstance(r, ast.Return) and isinstance(r.value, ast.Call) and (refs.resolve(r.value.func) or "") == "funsor.tensor.Tensor"
            and len(r.value.args) >= 2 and isinstance(r.value.args[1], ast.Name)]
    done = False
    for r in rets:
        M = r.value.args[1].id
        stores = [t for t in walk_no_nested(f.node) if isinstance(t, ast.Subscript) and isinstance(t.ctx, ast.Store) and norm(t.value) == M]
        for t in stores:
            loops = [a for a in f.module.ancestors(t) if isinstance(a, ast.For)]
            if not loops:
                continue
            done = True
            it = loops[0].iter
            over_shape = any(isinstance(y, ast.Attribute) and y.attr == "shape" and norm(y.value) == xp for y in ast.walk(it))
            over_mapping = any(isinstance(y, ast.Call) and isinstance(y.func, ast.Attribute) and y.func.attr in ("items", "keys", "values") for y in ast.walk(it)) \
                or any(isinstance(y, ast.Name) and y.id in f.positional[2:] for y in ast.walk(it))
            col.check(over_shape and not over_mapping, f"{f.fq}::for {norm(loops[0].target)} in {norm(it)[:50]}",
                      f"the inputs are declared while walking the dims of `{xp}.shape` from the left",
                      f"`{M}` is filled while iterating `{norm(it)[:50]}`: the declared order of the inputs follows that iteration, not the layout of `{xp}` (which is wrapped "
                      "unchanged), so a mapping written in another order than ascending dims attaches each name to another dim's data", f.loc(loops[0]))
    if not done:
        # built in one go from two sequences: name and size of a dim must come from the SAME position, so the two sides of the zip must
        # not be filtered separately (a named dim of size 1 would shift every later size onto the previous name)
        for r in rets:
            M = r.value.args[1].id
            for st in walk_no_nested(f.node):
                if isinstance(st, ast.Assign) and len(st.targets) == 1 and norm(st.targets[0]) == M:
                    zips = [c for c in ast.walk(st.value) if isinstance(c, ast.Call) and norm(c.func) == "zip" and len(c.args) == 2]
                    for z in zips:
                        def filt(e):
                            if isinstance(e, ast.Name):
                                ds = [d.value for d in walk_no_nested(f.node) if isinstance(d, ast.Assign) and len(d.targets) == 1 and norm(d.targets[0]) == e.id]
                                e = ds[0] if len(ds) == 1 else e
                            return [norm(c_) for c_ in e.generators[0].ifs] if isinstance(e, (ast.GeneratorExp, ast.ListComp)) else None
                        fa, fb = filt(z.args[0]), filt(z.args[1])
                        done = True
                        if fa is not None and fb is not None and (fa or fb) and fa != fb:
                            col.violation(f"{f.fq}::{norm(z)[:60]}", f"the names are filtered by `{' and '.join(fa) or 'nothing'}` and the sizes by `{' and '.join(fb) or 'nothing'}` BEFORE they are "
                                          "paired: a dim that passes one filter and not the other (a named dim of size 1, an unnamed dim of size > 1) shifts every later size onto "
                                          "another dim's name", f.loc(z))
                        else:
                            col.unresolved(f"{f.fq}::{norm(z)[:60]}", "inputs built from a zip; pairing not judged", f.loc(z))
    if not done:
        col.unresolved(f"{f.fq}::packing loop", "no loop that fills the inputs of the returned Tensor found", f.loc())


def _event_dims_stay(prog: Program, col: Collector, refs: Refs):
    """A permutation applied to a tensor's array moves the BATCH dims only; it is completed by the identity on the event dims, which
    sit behind them: `perm + range(n_batch, n_batch + n_event)` (or `range(n_batch, len(data.shape))`).  The tail is evaluated
    for 0..3 batch dims and 0..2 event dims."""
    from .kernels import _eval_int
    from .c04 import _NoEval
    n = 0
    for fq in ("funsor.tensor::Tensor.align", "funsor.tensor::align_tensor", "funsor.tensor::tensor_to_data"):
        f = prog.funcs.get(fq)
        if f is None:
            raise AnalysisError(f"anchor {fq} not found")
        defs = _defs(f)
        perms = [c for c in walk_no_nested(f.node) if isinstance(c, ast.Call) and (refs.resolve(c.func) or norm(c.func)).rsplit(".", 1)[-1] == "permute" and len(c.args) >= 2]
        for c in perms:
            # find `A + <wrapper>(range(lo, hi))` in the definition of the permutation
            cands, seen, tail = [c.args[1]], set(), None
            head = None
            while cands:
                e = cands.pop()
                for x in ast.walk(e):
                    if isinstance(x, ast.BinOp) and isinstance(x.op, ast.Add):
                        r_ = x.right
                        while isinstance(r_, ast.Call) and isinstance(r_.func, ast.Name) and r_.func.id in ("tuple", "list") and r_.args:
                            r_ = r_.args[0]
                        if isinstance(r_, ast.Call) and isinstance(r_.func, ast.Name) and r_.func.id == "range" and len(r_.args) in (1, 2):
                            tail, head = r_, x.left
                        elif isinstance(r_, (ast.GeneratorExp, ast.ListComp)) and len(r_.generators) == 1 and isinstance(r_.generators[0].iter, ast.Call) \
                                and norm(r_.generators[0].iter.func) == "range" and not any(isinstance(y, ast.Attribute) and y.attr == "index" for y in ast.walk(r_.elt)) \
                                and any(isinstance(y, ast.Attribute) and y.attr == "shape" for y in ast.walk(r_.generators[0].iter)):
                            tail, head = r_, x.left
                    if isinstance(x, ast.Name) and x.id in defs and x.id not in seen:
                        seen.add(x.id)
                        cands.extend(defs[x.id])
            construct = f"{f.fq}::{norm(c)[:50]}::event dims"
            if tail is None:
                col.unresolved(construct, "the part of the permutation that covers the event dims was not found", f.loc(c))
                continue
            n += 1
            bad = None
            try:
                for nb in range(0, 4):
                    for ne in range(0, 3):
                        env = {}
                        # lengths of anything batch-like are nb; of output shapes ne; of the whole array nb + ne
                        for y in ast.walk(tail):
                            if isinstance(y, ast.Call) and isinstance(y.func, ast.Name) and y.func.id == "len" and y.args:
                                t_ = norm(y.args[0])
                                a0_ = y.args[0]
                                whole = t_.endswith(".data.shape") or (isinstance(a0_, ast.Attribute) and a0_.attr == "shape" and _owner_of_data(a0_.value, defs) is not None)
                                env[norm(y)] = ne if t_.endswith("output.shape") else nb + ne if whole else nb
                        if isinstance(tail, ast.Call):
                            lo = _eval_int(tail.args[0], env) if len(tail.args) == 2 else 0
                            hi = _eval_int(tail.args[-1], env)
                            got = list(range(lo, hi))
                        else:  # a comprehension over a range: evaluate the element for every index
                            rg = tail.generators[0].iter
                            for y in ast.walk(rg):
                                if isinstance(y, ast.Call) and isinstance(y.func, ast.Name) and y.func.id == "len" and y.args:
                                    t_ = norm(y.args[0])
                                    a0_ = y.args[0]
                                    whole = t_.endswith(".data.shape") or (isinstance(a0_, ast.Attribute) and a0_.attr == "shape" and _owner_of_data(a0_.value, defs) is not None)
                                    env[norm(y)] = ne if t_.endswith("output.shape") else nb + ne if whole else nb
                            lo = _eval_int(rg.args[0], env) if len(rg.args) >= 2 else 0
                            hi = _eval_int(rg.args[1] if len(rg.args) >= 2 else rg.args[0], env)
                            iv = tail.generators[0].target.id
                            got = []
                            for i_ in range(lo, hi):
                                env[iv] = i_
                                got.append(_eval_int(tail.elt, env) % max(1, nb + ne))  # a negative position counts from the right
                        if got != list(range(nb, nb + ne)) and bad is None:
                            bad = (nb, ne, got)
            except _NoEval as ex:
                col.unresolved(construct, f"not evaluated ({ex})", f.loc(c))
                continue
            col.check(bad is None, construct, "the permutation ends with the identity on the event dims (range(n_batch, n_batch + n_event))",
                      f"with {bad[0]} batch and {bad[1]} event dims the permutation is completed by {bad[2]} instead of {list(range(bad[0], bad[0] + bad[1]))}: event dims are moved or "
                      "dropped, so the output shape holds data of another dim" if bad else "", f.loc(c))
    col.cur.analysed["event_tails"] = n


def _unpack_sizes(prog: Program, col: Collector, refs: Refs):
    """tensor_to_data: after the array has been permuted into the order of the sorted target dims, batch_shape[dim] = size pairs the
    sorted dims with the sizes of the PERMUTED array (not of x.data, whose dims are still in input order)."""
    f = require_func(prog, "funsor.tensor::tensor_to_data")
    loops = [lp for lp in walk_no_nested(f.node) if isinstance(lp, ast.For) and isinstance(lp.iter, ast.Call) and norm(lp.iter.func) == "zip" and len(lp.iter.args) == 2
             and any(isinstance(st, ast.Assign) and isinstance(st.targets[0], ast.Subscript) for st in lp.body)]
    construct = f"{f.fq}::sizes of the unpacked dims"
    if len(loops) != 1:
        col.unresolved(construct, "the loop that writes the batch shape not found", f.loc())
        return
    lp = loops[0]
    a0, a1 = lp.iter.args
    defs = _defs(f)
    sorted_dims = isinstance(a0, ast.Name) and any(isinstance(d, ast.Call) and isinstance(d.func, ast.Name) and d.func.id == "sorted" for d in defs.get(a0.id, []))
    # a1 is <arr>.shape where <arr> was (re)assigned from a permute call before the loop
    arr = a1.value.id if isinstance(a1, ast.Attribute) and a1.attr == "shape" and isinstance(a1.value, ast.Name) else None
    permuted = arr is not None and any(isinstance(st, ast.Assign) and len(st.targets) == 1 and norm(st.targets[0]) == arr and isinstance(st.value, ast.Call)
                                       and norm(st.value.func).rsplit(".", 1)[-1] == "permute" and st.lineno < lp.lineno for st in walk_no_nested(f.node))
    col.check(sorted_dims and permuted, construct, f"zip(<sorted dims>, <permuted array>.shape)",
              f"the sizes written into the batch shape are taken from `{norm(a1)}` paired with `{norm(a0)}`: the dims must be the SORTED target dims and the sizes those of the array "
              "after it was permuted into that order, otherwise every dim gets the size of another one", f.loc(lp))


def run(prog: Program, col: Collector, tier: str, refs: Optional[Refs] = None, cat: Optional[Catalogue] = None):
    refs = refs or Refs(prog)
    col.rule("R19.1", "a permutation [S.index(e) for e in T] is built with S = the current layout of the permuted array", floor=3)
    _permutation_sites(prog, col, refs)
    col.rule("R19.2", "the inputs of an aligned result are the requested names, then the remaining inputs", floor=3)
    _aligned_inputs(prog, col, refs)
    col.rule("R19.3", "negative batch dims and positions are related by the right integer expressions (grid evaluation)", floor=3)
    _integer_clauses(prog, col, refs)
    col.rule("R19.4", "materialize substitutes an arange for every integer-typed input", floor=1)
    _materialize(prog, col, refs)
    col.rule("R19.8", "a permutation of a tensor's array is completed by the identity on the event dims", floor=3)
    _event_dims_stay(prog, col, refs)
    col.rule("R19.9", "to_data pairs the sorted target dims with the sizes of the permuted array", floor=1)
    _unpack_sizes(prog, col, refs)
    col.rule("R19.5", "to_funsor declares the inputs in the order of the array's dims", floor=1)
    _packed_in_layout_order(prog, col, refs)
    # renaming of the inputs of an evaluated tensor (what `x(i='j', j='k')` / align-by-substitution relies on): shared with C04
    cat = cat or Catalogue(prog, refs)
    from . import c04
    col.rule("R19.6", "a renaming set that is filtered by a test on itself is filtered to a fixpoint (shared with C04 R04.19)", floor=0)
    c04._self_referential_filter(prog, col, refs, cat)
    col.rule("R19.7", "an input is renamed to the name of a substituted value only after that name is tested against the term's own inputs (shared with C04 R04.9)", floor=2)
    c04._rename_clash(prog, col, refs, cat, c04._subs_collections(prog, refs, cat))
    # materialize substitutes an arange (a Tensor index) for every integer input and must agree with point evaluation (a Number index): shared with C04
    col.rule("R19.10", "the Number and the Tensor branch of an eager_subs compute the same function of the index data (shared with C04 R04.5)", floor=1)
    c04._ground_index_siblings(prog, col, refs, cat)
    # binary rules over aligned operands (Binary(op, Align, Align) and the tensor rules) keep the operand order: shared with C02
    from . import algebra
    algebra.r_binary_rule_operand_order(prog, col, refs, cat, "R19.11")
    col.rule("R19.12", "a method of Tensor that rebuilds a Tensor from a re-layout of self.data (subscripts, permute / reshape / expand …) hands the dtype on", floor=2)
    _dtype_handed_on(prog, col, refs)
    col.rule("R19.13", "Contraction.align returns the term-wise aligned result only when its inputs are the requested names; in every other case the lazy Align", floor=1)
    _contraction_align_fallback(prog, col, refs)
    return col


def _dtype_handed_on(prog: Program, col: Collector, refs: Refs):
    """Layout operations (align, eager_subs, materialize, new_arange, clamp_finite, eager_unary, eager_reduce) rebuild a Tensor from
    `self.data`; the constructor's dtype defaults to "real", so a call with two arguments silently turns a Bint[n]-valued tensor into a
    real-valued one.  `_sample` is exempt: what it builds from the logits are log-weights, real whatever the dtype (1 frozen exception)."""
    n = 0
    for f in prog.funcs.values():
        if f.cls is None or not f.fq.startswith("funsor.tensor::Tensor.") or isinstance(f.node, ast.Lambda) or f.name in ("_sample", "__init__"):
            continue
        LAYOUT = {"permute", "reshape", "expand", "transpose", "unsqueeze", "squeeze", "stack", "cat", "flip", "detach", "contiguous", "copy", "clone"}

        def layout_of_self_data(e, derived):
            """`e` is self.data, a name derived from it, or either of them under subscripts / layout-only calls"""
            if isinstance(e, ast.Attribute) and e.attr == "data" and isinstance(e.value, ast.Name) and e.value.id == "self":
                return True
            if isinstance(e, ast.Name):
                return e.id in derived
            if isinstance(e, ast.Subscript):
                return layout_of_self_data(e.value, derived)
            if isinstance(e, ast.IfExp):
                return layout_of_self_data(e.body, derived) and layout_of_self_data(e.orelse, derived)
            if isinstance(e, ast.Call) and norm(e.func).rsplit(".", 1)[-1] in LAYOUT:
                recv = [e.func.value] if isinstance(e.func, ast.Attribute) and not norm(e.func.value) in ("ops", "funsor.ops", "np", "numpy") else []
                return any(layout_of_self_data(a, derived) for a in recv + list(e.args[:1]))
            return False

        derived = set()
        for _ in range(4):
            for st in walk_no_nested(f.node):
                if isinstance(st, ast.Assign) and len(st.targets) == 1 and isinstance(st.targets[0], ast.Name) and layout_of_self_data(st.value, derived):
                    derived.add(st.targets[0].id)
        # a name that is also assigned something else (the result of an op, say) is not a pure re-layout
        for st in walk_no_nested(f.node):
            if isinstance(st, ast.Assign) and len(st.targets) == 1 and isinstance(st.targets[0], ast.Name) and st.targets[0].id in derived \
                    and not layout_of_self_data(st.value, derived):
                derived.discard(st.targets[0].id)
        for c in walk_no_nested(f.node):
            if not (isinstance(c, ast.Call) and isinstance(c.func, ast.Name) and c.func.id == "Tensor" and c.args):
                continue
            if not layout_of_self_data(c.args[0], derived):
                continue
            n += 1
            has = len(c.args) >= 3 or any(k.arg == "dtype" for k in c.keywords) or any(k.arg is None for k in c.keywords)
            col.check(has, f"{f.fq}::{norm(c)[:50]}", "a dtype is passed",
                      f"`{norm(c)[:50]}` rebuilds a Tensor from self.data without a dtype: the constructor's default is \"real\", so a Bint[n]-valued tensor comes back "
                      "real-valued from a pure change of layout (the value at every named point changes domain; to_data / to_funsor round trips return another dtype)", f.loc(c))
    col.cur.analysed["tensors_rebuilt_from_self_data"] = n


def _contraction_align_fallback(prog: Program, col: Collector, refs: Refs):
    f = require_func(prog, "funsor.cnf::Contraction.align")
    construct = f"{f.fq}::fallback"
    names = f.positional[1] if len(f.positional) > 1 else "names"
    ifs = [a for a in walk_no_nested(f.node) if isinstance(a, ast.If)
           and any(isinstance(r, ast.Return) and isinstance(r.value, ast.Call) and (refs.resolve(r.value.func) or norm(r.value.func)).endswith("Align") for r in a.body)]
    direct = [r for r in walk_no_nested(f.node) if isinstance(r, ast.Return) and r.value is not None
              and not (isinstance(r.value, ast.Call) and (refs.resolve(r.value.func) or norm(r.value.func)).endswith("Align"))]
    if not direct:
        col.check(True, construct, "every return is the lazy Align", "", f.loc())
        return
    if len(ifs) != 1:
        col.unresolved(construct, f"expected one `if …: return Align(…)` in front of the direct return, found {len(ifs)}", f.loc())
        return

    def is_mismatch(t):
        # names != tuple(X.inputs)  /  not names == tuple(X.inputs)  (either operand order)
        neg = False
        if isinstance(t, ast.UnaryOp) and isinstance(t.op, ast.Not):
            t, neg = t.operand, True
        if not (isinstance(t, ast.Compare) and len(t.ops) == 1):
            return False
        if not ((neg and isinstance(t.ops[0], ast.Eq)) or (not neg and isinstance(t.ops[0], ast.NotEq))):
            return False
        sides = [norm(t.left), norm(t.comparators[0])]
        other = [x for x in sides if x != names]
        return names in sides and len(other) == 1 and other[0].startswith("tuple(") and ".inputs" in other[0]

    t = ifs[0].test
    disj = t.values if isinstance(t, ast.BoolOp) and isinstance(t.op, ast.Or) else [t]
    ok = any(is_mismatch(d) for d in disj)
    col.check(ok, construct, "the Align fallback is taken whenever the inputs of the term-wise result are not the requested names",
              f"the lazy Align is returned only if `{norm(t)[:70]}`: that does not follow from `{names} != tuple(result.inputs)` alone, so a term-wise result whose inputs are "
              "in another order than requested can be returned as if aligned (.inputs in the wrong order; to_data / binary alignment then read the data under the wrong names)",
              f.loc(ifs[0]))
