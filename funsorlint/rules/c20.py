"""C20 - terms and the arrays behind them are never mutated (ownership / effect analysis)."""
from __future__ import annotations

import ast
from typing import Dict, List, Optional, Set, Tuple

from ..catalogue import Catalogue
from ..model import AnalysisError, Func, Program, norm
from ..ownership import Ownership, Site, chain, fields_in, root_kinds, _direct_param
from ..report import Collector
from . import allow
from .common import Refs, walk_no_nested

EXPLANATION = (
    "Ownership/effect analysis of every function and lambda of funsor/. Mutation sites (subscript/attribute stores and deletes, "
    "augmented assignments, mutating container/array methods, numpy/torch in-place API, out= keywords, setattr) are enumerated; "
    "for each, a flow-sensitive forward abstract interpretation computes the origin set of the written reference (fresh allocation, "
    "parameter, field of ..., view of ..., element of ..., global, term, frozen = handed to a term). R20.1: constructor fields of "
    "terms (computed from every Funsor subclass __init__) are stored only during construction. R20.2/R20.4: an in-place write "
    "whose receiver can only be a term field, a term, an operand of an array kernel (function registered as an op implementation / "
    "einsum backend) or a value already handed to a term is a violation. R20.3: `x op= e` on a name that may hold a borrowed array. "
    "R20.5: mutation after a fresh object escaped into Funsor.__init__/a term field/a term constructor. R20.6: per-function "
    "summaries (mutates parameter i, returns fresh / parameter / view) are propagated over resolved calls to a fixpoint and "
    "judged at the call site where the argument's ownership is known. Unknown origins are reported as unresolved, never failed."
    " Added since: elements of locally built containers carry the origins of what was stored into them; `type(x).__name__ == 'Tensor'` narrows like isinstance."
    " Round 4: return summaries are parametric - a helper that returns a field / view / element chain rooted at one of its parameters is summarised as that chain with a hole; the call site substitutes the origins of the actual argument and narrows the class tag of the field by what it knows about the argument's class."
)
ASSUMPTIONS = [
    "numpy/torch functions not listed as in-place or view-returning allocate their result (library semantics are trusted)",
    "aliasing through containers of containers beyond one level is not tracked (reported as unresolved)",
    "calls through dynamically selected callables (registries, backend strings) are not followed; their callee-side writes are judged in the callee",
]
RULE_TEXT = ("one obligation per mutation site / per call site of a function that mutates a parameter / per augmented assignment on a name; "
             "non-trivial = the receiver is not a syntactically fresh local (its origin had to be derived)")


def protected_fields(prog: Program, cat: Catalogue):
    """field name -> term classes that assign it in __init__ ; and the set of (class, field) pairs holding arrays"""
    fields: Dict[str, Set[str]] = {}
    array_fields: Set[Tuple[str, str]] = set()
    for t in cat.term_classes.values():
        init = t.cls.methods.get("__init__")
        if init is None or not init.positional:
            continue
        selfname = init.positional[0]
        array_params = set()
        for n in walk_no_nested(init.node):
            if isinstance(n, ast.Call) and isinstance(n.func, (ast.Name, ast.Attribute)) and norm(n.func).endswith("is_numeric_array") and n.args \
                    and isinstance(n.args[0], ast.Name):
                array_params.add(n.args[0].id)
        for n in walk_no_nested(init.node):
            if isinstance(n, ast.Assign):
                for tg in n.targets:
                    if isinstance(tg, ast.Attribute) and isinstance(tg.value, ast.Name) and tg.value.id == selfname:
                        fields.setdefault(tg.attr, set()).add(t.fq)
                        if isinstance(n.value, ast.Name) and n.value.id in array_params:
                            array_fields.add((t.fq, tg.attr))
    fields.setdefault("_ast_values", set()).add("funsor.terms.Funsor")
    return fields, array_fields


def array_kernels(prog: Program, cat: Catalogue, refs: Refs) -> Dict[str, int]:
    """functions whose leading parameters are array operands owned by the caller: fq -> number of operand parameters
    (-1: the *args tuple).  Roles: default implementation of an op, function registered for an op, einsum of a package backend."""
    out: Dict[str, int] = {}
    for o in cat.ops.values():
        if isinstance(o.impl, ast.FunctionDef):
            f = prog.func_of(o.impl)
            ar = cat.arity_of(o.parent)
            if f is not None and ar:
                out[f.fq] = ar
    for r in cat.registrations:
        if r.method == "register" and r.registry in cat.ops and r.target is not None:
            ar = cat.arity_of(r.registry)
            if ar:
                out.setdefault(r.target.fq, ar)
    for tname in ("funsor.cnf.BACKEND_TO_EINSUM_BACKEND", "funsor.cnf.BACKEND_TO_LOGSUMEXP_BACKEND", "funsor.cnf.BACKEND_TO_MAP_BACKEND"):
        for e in cat.table_entries(tname):
            if e.value is not None and isinstance(e.value, ast.Constant) and isinstance(e.value.value, str):
                for fn in ("einsum", "tensordot", "transpose"):
                    f = prog.funcs.get(f"{e.value.value}::{fn}")
                    if f is not None:
                        out[f.fq] = -1 if f.node.args.vararg else len(f.positional)
    return out


class Judge:
    def __init__(self, prog: Program, cat: Catalogue, refs: Refs, own: Ownership):
        self.prog, self.cat, self.refs, self.own = prog, cat, refs, own
        self.fields, self.array_fields = protected_fields(prog, cat)
        self.kernels = array_kernels(prog, cat, refs)

    def is_array_field(self, o) -> bool:
        """Is some field on the chain of origin ``o`` known to hold an array?  Known = the receiver's class is known (narrowed)
        and declares the field as an array, or every class declaring a field of that name declares it as an array."""
        for x in chain(o):
            if x[0] != "field" or x[2] not in self.fields:
                continue
            attr, classes = x[2], (x[3] if len(x) > 3 else ())
            declaring = self.fields[attr]
            if classes:
                known = [c for c in classes if any(d in self.prog.mro(c) for d in declaring)]
                if known and all(any((d, attr) in self.array_fields for d in self.prog.mro(c)) for c in known):
                    return True
                continue
            if all((d, attr) in self.array_fields for d in declaring):
                return True
        return False

    # verdict per origin: ('fresh'|'viol'|'param'|'exempt'|'unres', reason, array_kind)
    def origin_verdict(self, f: Func, o, site_kind: str):
        roots = root_kinds(o)
        ch = chain(o)
        flds = fields_in(o)
        root = ch[-1]
        has_elem = any(x[0] == "elem" for x in ch)
        if root[0] == "fresh":
            if has_elem:
                return ("unres", "element of a locally built container", False)
            return ("fresh", "", False)
        if root[0] == "frozen":
            return ("viol", "the object was handed to a term (Funsor.__init__ / term field / term constructor) earlier in this function", root[1] == "array")
        if root[0] == "term":
            return ("viol", "the receiver is reached through a term returned by a constructor/op call (interned, shared)", self.is_array_field(o))
        if root[0] == "global":
            return ("exempt", f"module-level state {root[1]} (not a term)", False)
        if root[0] == "tuple":
            return ("unres", "tuple display", False)
        if root[0] == "param":
            idx = root[1]
            prot = [a for a in flds if a in self.fields]
            is_self = idx == 0 and f.cls is not None and not _is_static(f)
            if prot:
                if is_self:
                    if f.cls.fq not in self.cat.term_classes:
                        return ("exempt", f"own state of non-term class {f.cls.name}", False)
                    if f.name in ("__init__", "__new__"):
                        # the object under construction; but a write *through* a field that aliases an operand is still a write to the operand
                        return ("exempt", "object under construction", False)
                return ("viol", f"the write reaches constructor field .{prot[0]} of a term ({'self' if is_self else 'parameter ' + str(root[2])})",
                        self.is_array_field(o))
            if flds:
                first = flds[-1]  # attribute taken directly from the parameter
                if first in allow.CLASS_STATE_ATTRS:
                    return ("exempt", allow.CLASS_STATE_ATTRS[first], False)
                if is_self and f.cls.fq not in self.cat.term_classes:
                    return ("exempt", f"own state of {f.cls.name}", False)
                if is_self and f.name in ("__init__", "__new__"):
                    return ("exempt", "object under construction", False)
                return ("exempt", f"attribute .{first} is not a constructor field of any term", False)
            # the parameter object itself (or a view / element of it)
            k = self.kernels.get(f.fq)
            if k is not None and (idx < k or (k == -1 and idx == -1) or (k == -1 and idx >= 1)):
                return ("viol", f"in-place write to array operand `{root[2]}` of an array kernel (the caller's / a term's array)", True)
            if is_self and f.name in ("__init__", "__new__", "__setitem__", "__delitem__", "__setattr__"):
                return ("exempt", "object's own mutation protocol", False)
            if has_elem:
                return ("unres", f"element of parameter `{root[2]}`", False)
            if root[2] in allow.ACCUMULATOR_PARAMS and idx >= 0:
                return ("param", allow.ACCUMULATOR_PARAMS[root[2]], False)
            return ("param", f"parameter `{root[2]}` of unknown kind: judged at call sites", False)
        if root[0] in ("imm", "def", "import", "exc"):
            return ("unres", "receiver evaluated to an immutable/opaque value (analysis imprecision)", False)
        return ("unres", str(root[1]) if len(root) > 1 else root[0], False)


def _is_static(f: Func) -> bool:
    return any(norm(d) in ("staticmethod",) for d in f.decorators)


def run(prog: Program, col: Collector, tier: str, refs: Optional[Refs] = None, cat: Optional[Catalogue] = None):
    refs = refs or Refs(prog)
    cat = cat or Catalogue(prog, refs)
    own = Ownership(prog, refs, cat).run()
    judge = Judge(prog, cat, refs, own)
    if len(judge.fields) < 30:
        raise AnalysisError(f"only {len(judge.fields)} protected term fields found; the term-class catalogue is broken")
    col.stats["protected_fields"] = sorted(judge.fields)
    col.stats["array_fields"] = sorted(f"{c.rsplit('.', 1)[-1]}.{a}" for c, a in judge.array_fields)
    col.stats["array_kernels"] = len(judge.kernels)
    col.stats["summary_rounds"] = own.rounds
    sites: List[Site] = [s for fa in own.analyses.values() for s in fa.sites]

    # ---------------------------------------------------------------- R20.1
    col.rule("R20.1", "constructor fields of terms are stored only during construction", floor=100)
    for s in sites:
        if s.kind != "attr-store":
            continue
        attr = s.detail
        f = s.func
        construct = s.construct
        if attr == "?" or attr not in judge.fields:
            # setattr with a computed name, or a non-field attribute (derived caches, builder state)
            if attr == "?":
                key = (f.fq, "*")
                if key in allow.TERM_ATTR_STORES:
                    col.ok(construct, allow.TERM_ATTR_STORES[key], s.loc)
                else:
                    col.unresolved(construct, "setattr with a computed attribute name", s.loc)
            elif attr in ("shape", "strides", "dtype") and not (f.name in ("__init__", "__new__")):
                # assigning an array's metadata re-shapes / re-types the very buffer in place (x.shape += (1,)): a write like any other
                vs = [judge.origin_verdict(f, o, "augassign-name") for o in s.origins]
                arr_viol = [v for v in vs if v[0] == "viol" and v[2]]
                if arr_viol:
                    col.violation(construct, f"`{norm(s.stmt)}` changes the .{attr} of an array in place, and the array is not the function's own: {arr_viol[0][1]} "
                                  "(the caller's array / the array inside a term is re-shaped under its owner)", s.loc)
                else:
                    col.ok(construct, f"`.{attr}` assigned on an object that is not a borrowed array", s.loc, nontrivial=False)
            else:
                col.ok(construct, f"`.{attr}` is not a constructor field of any term", s.loc, nontrivial=False)
            continue
        verdicts = []
        for o in s.origins:
            root = chain(o)[-1]
            is_self_param = o[0] == "param" and o[1] == 0 and f.cls is not None
            if is_self_param and f.name in ("__init__", "__new__"):
                verdicts.append(("ok", "self in its own constructor"))
            elif is_self_param and f.cls.fq not in cat.term_classes:
                verdicts.append(("ok", f"own attribute of non-term class {f.cls.name}"))
            elif root[0] == "fresh" and root[1] == "object":
                verdicts.append(("ok", "attribute of a freshly constructed non-term object"))
            elif (f.fq, attr) in allow.TERM_ATTR_STORES:
                verdicts.append(("ok", allow.TERM_ATTR_STORES[(f.fq, attr)]))
            elif root[0] in ("unknown", "imm", "def", "global", "tuple"):
                # typed by what we know: a receiver of unknown origin storing a term field name
                verdicts.append(("unres", f"receiver of unknown kind ({root})"))
            else:
                verdicts.append(("viol", f"store to constructor field .{attr} (declared by {sorted(judge.fields[attr])[0].rsplit('.', 1)[-1]}.__init__) outside construction"))
        kinds = {v[0] for v in verdicts}
        if kinds == {"ok"}:
            col.ok(construct, verdicts[0][1], s.loc, nontrivial=f.name not in ("__init__", "__new__"))
        elif "viol" in kinds and "ok" not in kinds:
            col.violation(construct, [v for v in verdicts if v[0] == "viol"][0][1] + ": a term's fields would change after it has been interned and shared", s.loc)
        else:
            col.unresolved(construct, "; ".join(sorted({v[1] for v in verdicts})), s.loc)

    # ---------------------------------------------------------------- R20.2 / R20.4 / R20.5
    r2 = col.rule("R20.2", "no in-place write through a borrowed, term-owned or frozen reference (incl. R20.4 library in-place API, R20.5 escape-then-mutate)", floor=350)
    n_fresh = 0
    for s in sites:
        if s.kind in ("attr-store", "augassign-name"):
            continue
        _judge_site(col, judge, s, s.origins, s.construct, s.loc, what=_what(s))

    # ---------------------------------------------------------------- R20.3
    col.rule("R20.3", "augmented assignment on a name that may hold a borrowed array", floor=40)
    for s in sites:
        if s.kind != "augassign-name":
            continue
        vs = [judge.origin_verdict(s.func, o, s.kind) for o in s.origins]
        arr_viol = [v for v in vs if v[0] == "viol" and v[2]]
        if arr_viol and all(v[0] in ("viol",) for v in vs):
            col.violation(s.construct, f"`{norm(s.stmt)}` updates in place an array the function does not own: {arr_viol[0][1]}", s.loc)
        elif arr_viol:
            col.violation(s.construct, f"`{norm(s.stmt)}` updates in place, on some path, an array the function does not own: {arr_viol[0][1]}", s.loc)
        else:
            col.ok(s.construct, "re-binding of a local (no array-kind borrowed origin)", s.loc, nontrivial=False)

    # ---------------------------------------------------------------- R20.6 call sites
    col.rule("R20.6", "arguments passed in positions the callee (transitively) mutates are fresh", floor=4)
    for fa in own.analyses.values():
        for c, callee, argvals, kwvals in fa.calls:
            target, offset = None, 0
            if callee is not None:
                lk = prog.lookup(callee)
                if lk and lk[0] == "func":
                    target = lk[1]
                elif lk and lk[0] == "class":
                    target = prog.find_method(lk[1].fq, "__init__")
                    offset = 1
            elif isinstance(c.func, ast.Attribute):
                target = fa._resolve_method(c.func, None)
                offset = 1
            if target is None:
                continue
            ts = own.summaries.get(target.fq)
            if not ts or not ts.mutates:
                continue
            for pi, witnesses in sorted(ts.mutates.items()):
                ai = pi - offset
                vals = None
                argexpr = None
                if 0 <= ai < len(argvals) and not any(isinstance(a, ast.Starred) for a in c.args[: ai + 1]):
                    vals, argexpr = argvals[ai], c.args[ai]
                else:
                    pname = target.positional[pi] if 0 <= pi < len(target.positional) else None
                    if pname and pname in kwvals:
                        vals = kwvals[pname]
                        argexpr = [k.value for k in c.keywords if k.arg == pname][0]
                if vals is None:
                    continue
                w = witnesses[0]
                construct = f"{fa.f.fq}::{norm(c)}#arg{ai}"
                _judge_site(col, judge, None, vals, construct, fa.f.loc(c),
                            what=f"argument `{norm(argexpr)}` is mutated by {target.fq} (e.g. at {w.loc}: {norm(w.stmt)})", func=fa.f,
                            path=f"{fa.f.fq} -> {target.fq} -> {w.loc}")
    return col


def _what(s: Site) -> str:
    if s.kind == "method":
        return f"mutating call {norm(s.receiver)}{s.detail}"
    if s.kind == "subscript-store":
        return f"item store `{s.detail}`"
    if s.kind == "lib-inplace":
        return f"in-place library call {s.detail} on `{norm(s.receiver)}`"
    if s.kind == "out=":
        return f"out= destination `{norm(s.receiver)}`"
    return s.kind


def _judge_site(col: Collector, judge: Judge, s: Optional[Site], origins, construct: str, loc: str, what: str, func: Optional[Func] = None, path: str = ""):
    f = s.func if s is not None else func
    vs = [judge.origin_verdict(f, o, s.kind if s else "call") for o in origins]
    if not vs:
        col.unresolved(construct, f"{what}: receiver has no reaching definition", loc)
        return
    kinds = {v[0] for v in vs}
    if kinds <= {"fresh"}:
        col.ok(construct, f"{what}: receiver is a fresh local allocation", loc, nontrivial=_nontrivial(s))
    elif kinds <= {"fresh", "exempt", "param"} and "viol" not in kinds:
        reason = "; ".join(sorted({v[1] for v in vs if v[0] != "fresh"}))
        col.ok(construct, f"{what}: {reason}", loc)
    elif "viol" in kinds and kinds <= {"viol"}:
        v = [x for x in vs if x[0] == "viol"][0]
        col.violation(construct, f"{what}: {v[1]}", loc, path=path)
    elif "viol" in kinds and any(v[0] == "viol" and v[2] for v in vs) and kinds <= {"viol", "fresh"}:
        v = [x for x in vs if x[0] == "viol" and x[2]][0]
        col.violation(construct, f"{what}: on some path the receiver is not a fresh copy - {v[1]}", loc, path=path)
    else:
        reason = "; ".join(sorted({f"{v[0]}: {v[1]}" for v in vs if v[0] not in ("fresh",)}))
        col.unresolved(construct, f"{what}: {reason}", loc)


def _nontrivial(s: Optional[Site]) -> bool:
    if s is None:
        return True
    return not isinstance(s.receiver, ast.Name)
