"""Shared queries used by the rule modules."""
from __future__ import annotations

import ast
from typing import Dict, Iterator, List, Optional, Tuple

from ..model import Program, Module, Func, dotted, local_names, norm, AnalysisError


class Refs:
    """Index of every Name / attribute-chain occurrence that resolves to a canonical dotted name."""

    def __init__(self, prog: Program, include_extra: bool = False):
        self.prog = prog
        self.by_name: Dict[str, List[Tuple[Module, ast.AST]]] = {}
        self._locals_cache: Dict[ast.AST, set] = {}
        self.resolved: Dict[ast.AST, str] = {}
        for mod in prog.all_modules(include_extra):
            for node in ast.walk(mod.tree):
                if isinstance(node, (ast.Name, ast.Attribute)):
                    parts = dotted(node)
                    if not parts:
                        continue
                    if parts[0] in self.scope_locals(mod, node):
                        r = self._resolve_local_import(mod, node, parts)
                        if r is not None:
                            self.resolved[node] = r
                            self.by_name.setdefault(r, []).append((mod, node))
                        continue
                    r = prog.resolve_expr(mod, node)
                    if r is not None:
                        self.resolved[node] = r
                        self.by_name.setdefault(r, []).append((mod, node))

    def _local_imports(self, mod: Module, f: ast.AST) -> Dict[str, str]:
        """Names bound in function ``f`` by import statements only (never otherwise stored): name -> canonical target."""
        cache = self.__dict__.setdefault("_limp_cache", {})
        if f in cache:
            return cache[f]
        imp: Dict[str, str] = {}
        stored = set()
        a = f.args
        for x in a.posonlyargs + a.args + a.kwonlyargs + ([a.vararg] if a.vararg else []) + ([a.kwarg] if a.kwarg else []):
            stored.add(x.arg)
        body = [f.body] if isinstance(f, ast.Lambda) else f.body
        stack = list(body)
        while stack:
            n = stack.pop()
            if isinstance(n, (ast.FunctionDef, ast.AsyncFunctionDef, ast.ClassDef)):
                stored.add(n.name)
                continue
            if isinstance(n, ast.Lambda):
                continue
            if isinstance(n, ast.Import):
                for al in n.names:
                    if al.asname:
                        imp[al.asname] = al.name
                    else:
                        imp[al.name.split(".")[0]] = al.name.split(".")[0]
            elif isinstance(n, ast.ImportFrom):
                src = self.prog._abs_module(mod, n.level, n.module)
                for al in n.names:
                    if al.name != "*":
                        r = self.prog._resolve_from(src, al.name, 0)
                        if r is not None:
                            imp[al.asname or al.name] = r
            elif isinstance(n, ast.Name) and isinstance(n.ctx, (ast.Store, ast.Del)):
                stored.add(n.id)
            elif isinstance(n, ast.ExceptHandler) and n.name:
                stored.add(n.name)
            stack.extend(ast.iter_child_nodes(n))
        out = {k: v for k, v in imp.items() if k not in stored}
        cache[f] = out
        return out

    def _resolve_local_import(self, mod: Module, node: ast.AST, parts) -> Optional[str]:
        """Resolve a name chain whose root is bound by a function-level import (innermost binding scope wins)."""
        f = mod.enclosing_function(node)
        while f is not None:
            if f not in self._locals_cache:
                self._locals_cache[f] = local_names(f)
            if parts[0] in self._locals_cache[f]:
                cur = self._local_imports(mod, f).get(parts[0])
                if cur is None:
                    return None
                for a in parts[1:]:
                    cur = self.prog.resolve_attr(cur, a)
                    if cur is None:
                        return None
                return cur
            f = mod.enclosing_function(f)
        return None

    def scope_locals(self, mod: Module, node: ast.AST) -> set:
        out = set()
        f = mod.enclosing_function(node)
        while f is not None:
            if f not in self._locals_cache:
                self._locals_cache[f] = local_names(f)
            out |= self._locals_cache[f]
            f = mod.enclosing_function(f)
        # class-body names shadow module names inside the class body itself (not inside methods)
        return out

    def to(self, name: str) -> List[Tuple[Module, ast.AST]]:
        return self.by_name.get(name, [])

    def resolve(self, node: ast.AST) -> Optional[str]:
        return self.resolved.get(node)

    def calls_to(self, name: str) -> List[Tuple[Module, ast.Call]]:
        out = []
        for mod, node in self.to(name):
            p = mod.parent.get(node)
            if isinstance(p, ast.Call) and p.func is node:
                out.append((mod, p))
        return out


def func_label(prog: Program, mod: Module, node: ast.AST) -> str:
    """'module::qualname' of the function lexically enclosing node ('<module>' at top level)."""
    f = mod.enclosing_function(node)
    while f is not None and prog.func_of(f) is None:
        f = mod.enclosing_function(f)
    if f is None:
        return f"{mod.name}::<module>"
    return prog.func_of(f).fq


def enclosing_stmt(mod: Module, node: ast.AST) -> ast.AST:
    cur = node
    while cur is not None and not isinstance(cur, ast.stmt):
        cur = mod.parent.get(cur)
    return cur


def is_super_call(call: ast.AST, method: Optional[str] = None) -> bool:
    """``super().m(...)`` or ``super(C, self).m(...)``"""
    if not (isinstance(call, ast.Call) and isinstance(call.func, ast.Attribute)):
        return False
    v = call.func.value
    if not (isinstance(v, ast.Call) and isinstance(v.func, ast.Name) and v.func.id == "super"):
        return False
    return method is None or call.func.attr == method


def contains(node: ast.AST, pred) -> bool:
    return any(pred(n) for n in ast.walk(node))


def find_all(node: ast.AST, pred) -> List[ast.AST]:
    return [n for n in ast.walk(node) if pred(n)]


def require_func(prog: Program, fq: str) -> Func:
    f = prog.funcs.get(fq)
    if f is None:
        raise AnalysisError(f"anchor function not found: {fq}")
    return f


def require_class(prog: Program, fq: str):
    c = prog.classes.get(fq)
    if c is None:
        raise AnalysisError(f"anchor class not found: {fq}")
    return c


def walk_no_nested(node: ast.AST) -> Iterator[ast.AST]:
    """Walk a function body without descending into nested function/class definitions."""
    stack = list(ast.iter_child_nodes(node))
    while stack:
        n = stack.pop()
        yield n
        if isinstance(n, (ast.FunctionDef, ast.AsyncFunctionDef, ast.ClassDef, ast.Lambda)):
            continue
        stack.extend(ast.iter_child_nodes(n))


def const_value(node: ast.AST):
    """Evaluate a literal constant expression (numbers, bools, None, strings, -x, math.inf)."""
    if isinstance(node, ast.Constant):
        return node.value
    if isinstance(node, ast.UnaryOp) and isinstance(node.op, ast.USub):
        v = const_value(node.operand)
        if isinstance(v, (int, float)):
            return -v
        return NotImplemented
    if isinstance(node, ast.UnaryOp) and isinstance(node.op, ast.UAdd):
        return const_value(node.operand)
    if isinstance(node, ast.Attribute) and isinstance(node.value, ast.Name) and node.value.id in ("math", "np", "numpy"):
        import math
        if node.attr == "inf":
            return math.inf
        if node.attr == "nan":
            return math.nan
        if node.attr == "pi":
            return math.pi
    if isinstance(node, ast.Call) and isinstance(node.func, ast.Name) and node.func.id == "float" and len(node.args) == 1:
        v = const_value(node.args[0])
        if isinstance(v, str):
            try:
                return float(v)
            except ValueError:
                return NotImplemented
        if isinstance(v, (int, float)):
            return float(v)
    return NotImplemented


def guarding_branch(mod: Module, stmt: ast.AST):
    """(if-node, core test, positive, branch statements) for the innermost `if` whose branch directly contains stmt.
    Leading `not`s are stripped from the test: positive tells whether the branch runs when the core test is true."""
    par = mod.parent.get(stmt)
    if not isinstance(par, ast.If):
        return None
    in_body = any(stmt is x for x in par.body)
    branch = par.body if in_body else par.orelse
    test, positive = par.test, in_body
    while isinstance(test, ast.UnaryOp) and isinstance(test.op, ast.Not):
        test, positive = test.operand, not positive
    return par, test, positive, branch


def regions_where(mod: Module, func_node: ast.AST, match):
    """Yield (if_node, payload, statements) for every region of `func_node` in which a test recognised by `match(core_test)`
    (returning a payload or None) is known to hold: the body of `if T`, the else-branch of `if not T`, and - when the branch
    taken for `not T` always leaves (return / raise / continue / break) - the statements that follow the `if` in its block."""
    for node in walk_no_nested(func_node):
        if not isinstance(node, ast.If):
            continue
        test, positive = node.test, True
        while isinstance(test, ast.UnaryOp) and isinstance(test.op, ast.Not):
            test, positive = test.operand, not positive
        payload = match(test)
        if payload is None:
            continue
        holds = node.body if positive else node.orelse
        other = node.orelse if positive else node.body
        if holds:
            yield node, payload, holds
        elif other and isinstance(other[-1], (ast.Return, ast.Raise, ast.Continue, ast.Break)):
            par = mod.parent.get(node)
            for fld in ("body", "orelse", "finalbody"):
                b = getattr(par, fld, None)
                if isinstance(b, list) and any(x is node for x in b):
                    i = [k for k, x in enumerate(b) if x is node][0]
                    yield node, payload, b[i + 1:]
