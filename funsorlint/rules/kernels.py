"""Rules about the array kernels behind eager evaluation of tensors: how raw `.data` arrays of two operands may be combined.
Shared by C01/C02/C03/C04/C06 (each property re-labels the rule)."""
from __future__ import annotations

import ast
from typing import Dict, List, Optional

from ..catalogue import Catalogue
from ..model import AnalysisError, Program, norm
from ..report import Collector
from .common import Refs, walk_no_nested

ORDER_INSENSITIVE = ("keys", "values", "items")


def _order_sensitive_inputs_test(test: ast.AST):
    """True / False / None (not recognised) for a test meant to establish that two tensors have the same layout."""
    t = test
    while isinstance(t, ast.UnaryOp) and isinstance(t.op, ast.Not):
        t = t.operand
    if not (isinstance(t, ast.Compare) and len(t.ops) == 1 and isinstance(t.ops[0], (ast.Eq, ast.NotEq))):
        return None, "not a comparison"
    sides = [t.left, t.comparators[0]]

    def classify(e):
        # X.inputs  (an OrderedDict: == is order-sensitive)
        if isinstance(e, ast.Attribute) and e.attr == "inputs":
            return True
        if isinstance(e, ast.Call) and isinstance(e.func, ast.Name) and e.func.id in ("tuple", "list") and len(e.args) == 1:
            a = e.args[0]
            if isinstance(a, ast.Attribute) and a.attr == "inputs":
                return True
            if isinstance(a, ast.Call) and isinstance(a.func, ast.Attribute) and a.func.attr in ORDER_INSENSITIVE and isinstance(a.func.value, ast.Attribute) and a.func.value.attr == "inputs":
                return True  # tuple(x.inputs.items()): a sequence, compared in order
            return None
        if isinstance(e, ast.Call) and isinstance(e.func, ast.Attribute) and e.func.attr in ("keys", "items") and isinstance(e.func.value, ast.Attribute) and e.func.value.attr == "inputs":
            return False  # dict views compare as sets
        if isinstance(e, ast.Call) and isinstance(e.func, ast.Name) and e.func.id in ("set", "frozenset", "sorted", "dict", "len"):
            return False
        if isinstance(e, ast.Attribute) and e.attr == "input_vars":
            return False  # a frozenset
        return None

    cs = [classify(x) for x in sides]
    if any(c is False for c in cs):
        return False, f"`{norm(t)}` compares the inputs as sets / plain dicts: it holds for tensors whose inputs are the same names in a different order"
    if all(c is True for c in cs):
        return True, ""
    return None, f"`{norm(t)}` not recognised"


def r_aligned_or_same_layout(prog: Program, col: Collector, refs: Refs, cat: Catalogue, rule: str):
    """The raw arrays of two tensors may be combined position by position only after align_tensors(...) or when their `.inputs`
    are equal *as ordered mappings* (same names, same order, same sizes).  A fast path guarded by an order-insensitive comparison
    pairs dimension k of one operand with dimension k of the other although they belong to different names."""
    col.rule(rule, "the fast path that skips align_tensors is guarded by an order-sensitive comparison of the operands' inputs", floor=3)
    n = 0
    for f in prog.funcs.values():
        if isinstance(f.node, ast.Lambda):
            continue
        for node in walk_no_nested(f.node):
            if not isinstance(node, ast.If) or not node.orelse:
                continue
            def has_align(blk):
                return any(isinstance(x, ast.Call) and (refs.resolve(x.func) or "").endswith("tensor.align_tensors") for st in blk for x in ast.walk(st))
            def data_reads(blk):
                return {norm(x.value) for st in blk for x in ast.walk(st) if isinstance(x, ast.Attribute) and x.attr == "data" and isinstance(x.value, ast.Name)}
            for fast, slow in ((node.body, node.orelse), (node.orelse, node.body)):
                if has_align(slow) and not has_align(fast) and len(data_reads(fast)) >= 2:
                    n += 1
                    ok, why = _order_sensitive_inputs_test(node.test)
                    construct = f"{f.fq}::if {norm(node.test)[:50]}"
                    if ok is True:
                        col.ok(construct, "`.inputs` of the operands compared as ordered mappings", f.loc(node))
                    elif ok is False:
                        col.violation(construct, why + f"; the branch then uses {sorted(data_reads(fast))}.data position by position without aligning them", f.loc(node))
                    else:
                        col.unresolved(construct, why, f.loc(node))
    col.cur.analysed["alignment_fast_paths"] = n


def r_unit_axis_padding(prog: Program, col: Collector, refs: Refs, cat: Catalogue, rule: str):
    """`x.reshape(y.shape + (1,) * n)` (or with the unit axes in front) only inserts axes of length one, so the shape it starts from
    must be the shape of the array being reshaped: taking it from another array (the operand before alignment, say) silently
    re-interprets the data whenever the two shapes differ but have the same number of elements."""
    col.rule(rule, "a reshape that only adds unit axes starts from the shape of the array it reshapes", floor=1)
    n = 0
    for f in prog.funcs.values():
        if isinstance(f.node, ast.Lambda):
            continue
        for c in walk_no_nested(f.node):
            if not (isinstance(c, ast.Call) and isinstance(c.func, ast.Attribute) and c.func.attr == "reshape" and len(c.args) == 1 and isinstance(c.args[0], ast.BinOp)
                    and isinstance(c.args[0].op, ast.Add)):
                continue
            terms = []
            def flat(e):
                if isinstance(e, ast.BinOp) and isinstance(e.op, ast.Add):
                    flat(e.left); flat(e.right)
                else:
                    terms.append(e)
            flat(c.args[0])
            def is_units(e):
                if isinstance(e, ast.Tuple):
                    return all(isinstance(x, ast.Constant) and x.value == 1 for x in e.elts) and bool(e.elts)
                return isinstance(e, ast.BinOp) and isinstance(e.op, ast.Mult) and (is_units(e.left) or is_units(e.right))
            shapes = [t for t in terms if isinstance(t, ast.Attribute) and t.attr == "shape"]
            others = [t for t in terms if not is_units(t) and t not in shapes]
            if len(shapes) != 1 or others or len(terms) < 2:
                continue
            n += 1
            recv, src = norm(c.func.value), norm(shapes[0].value)
            col.check(recv == src, f"{f.fq}::{norm(c)[:70]}", "the padded shape is the receiver's own shape",
                      f"`{recv}` is reshaped to `{src}.shape` plus unit axes: `{src}` is a different array (its layout need not be that of `{recv}`, e.g. before / after alignment), "
                      "so the data are re-interpreted under another dimension order whenever the two shapes differ", f.loc(c))
    col.cur.analysed["unit_axis_reshapes"] = n


def _eval_int(e: ast.AST, env: Dict[str, int]):
    """integer evaluation of an extracted expression; sub-expressions named in `env` by their source text are taken as given"""
    from .c04 import _ieval, _NoEval
    key = norm(e)
    if key in env:
        return env[key]
    if isinstance(e, (ast.BinOp, ast.UnaryOp, ast.Compare, ast.BoolOp, ast.IfExp)) or (isinstance(e, ast.Call) and isinstance(e.func, ast.Name) and e.func.id in ("min", "max", "abs")):
        # rebuild with evaluated leaves
        class Sub(ast.NodeTransformer):
            def generic_visit(self, node):
                k = norm(node) if isinstance(node, ast.expr) else None
                if k is not None and k in env:
                    return ast.Constant(value=env[k])
                return super().generic_visit(node)
        import copy
        return _ieval(Sub().visit(copy.deepcopy(e)), env)
    return _ieval(e, env)


def r_index_padding_count(prog: Program, col: Collector, refs: Refs, cat: Catalogue, rule: str):
    """Advanced indexing x[..., idx, ...] of a tensor with E event dims by an index tensor: the result has the batch dims followed by
    the E - 1 remaining event dims, whichever event dim is indexed, and all index arrays broadcast against that result.  The index
    data (batch dims only, after alignment) therefore needs exactly E - 1 unit axes appended - independently of the offset.  The
    count in the kernel is evaluated over E = 1..4 and every offset < E."""
    from .c04 import _NoEval
    col.rule(rule, "the index array of tensor-by-tensor indexing is padded with (event rank - 1) unit axes for every offset", floor=1)
    n = 0
    for reg in cat.registrations:
        f = reg.target
        if f is None or len(reg.pattern) != 4 or isinstance(f.node, ast.Lambda):
            continue
        pats = [refs.resolve(p) if isinstance(p, (ast.Name, ast.Attribute)) else None for p in reg.pattern]
        if not (pats[0] == "funsor.terms.Binary" and (pats[1] or "").endswith("GetitemOp") and pats[2] == "funsor.tensor.Tensor" and pats[3] == "funsor.tensor.Tensor"):
            continue
        opn, lhs, rhs = f.positional[:3]
        # locals holding integers, in program order (only what evaluates)
        assigns = sorted([st for st in walk_no_nested(f.node) if isinstance(st, ast.Assign) and len(st.targets) == 1 and isinstance(st.targets[0], ast.Name)],
                         key=lambda st: (st.lineno, st.col_offset))
        pads = []
        for c in walk_no_nested(f.node):
            if not (isinstance(c, ast.Call) and isinstance(c.func, ast.Attribute) and c.func.attr == "reshape" and len(c.args) == 1):
                continue
            for x in ast.walk(c.args[0]):
                if isinstance(x, ast.BinOp) and isinstance(x.op, ast.Mult):
                    for units, cnt in ((x.left, x.right), (x.right, x.left)):
                        if isinstance(units, ast.Tuple) and len(units.elts) == 1 and isinstance(units.elts[0], ast.Constant) and units.elts[0].value == 1:
                            # is the receiver the index operand's data?
                            recv = norm(c.func.value)
                            if rhs in recv.split("_")[0] or recv.startswith(rhs):
                                pads.append((c, cnt))
        if not pads:
            col.unresolved(f"{f.fq}::padding", "no `<index data>.reshape(... + (1,) * n)` found in the tensor-by-tensor indexing kernel", f.loc())
            continue
        n += 1
        bad = None
        checked = 0
        for E in range(1, 5):
            for off in range(E):
                env = {f"len({lhs}.output.shape)": E, f"{opn}.defaults['offset']": off, f'{opn}.defaults["offset"]': off, f"{opn}.offset": off}
                try:
                    for st in assigns:
                        try:
                            env[st.targets[0].id] = _eval_int(st.value, env)
                        except _NoEval:
                            pass
                    total = 0
                    for c, cnt in pads:
                        guards = [a for a in f.module.ancestors(c) if isinstance(a, ast.If) and f.module.enclosing_function(a) is f.node]
                        live = True
                        for g in guards:
                            inside_body = any(c is y for st in g.body for y in ast.walk(st))
                            tv = bool(_eval_int(g.test, env))
                            live = live and (tv if inside_body else not tv)
                        if live:
                            v = _eval_int(cnt, env)
                            total += max(0, v)
                except _NoEval as ex:
                    col.unresolved(f"{f.fq}::padding", f"the unit-axis count could not be evaluated ({ex})", f.loc(pads[0][0]))
                    bad = "unresolved"
                    break
                checked += 1
                if total != E - 1 and bad is None:
                    bad = (E, off, total)
            if bad == "unresolved":
                break
        if bad == "unresolved":
            continue
        construct = f"{f.fq}::{norm(pads[0][0])[:70]}"
        col.check(bad is None, construct, f"E - 1 unit axes for E = 1..4 and every offset ({checked} cases evaluated)",
                  (f"for a tensor with {bad[0]} event dims indexed at offset {bad[1]} the index array gets {bad[2]} unit axes instead of {bad[0] - 1}: it then broadcasts against "
                   "the wrong dimensions of the result (a batch dim of the index is paired with an event dim of the indexed tensor)") if bad else "", f.loc(pads[0][0]))
    col.cur.analysed["tensor_by_tensor_indexing_kernels"] = n


AXIS_LIKE = {"axis", "dim", "dims", "dim1", "dim2", "axis1", "axis2", "source", "destination"}


def r_axis_params_rebased(prog: Program, col: Collector, refs: Refs, cat: Catalogue, rule: str):
    """A unary op with an axis-like parameter counts dims of its operand's OUTPUT shape; the array of a Tensor has the batch inputs in
    front.  Every such op is therefore evaluated on a Tensor either by a registered rule for (Unary, <its class or an ancestor>,
    Tensor) that reads the op (the ReductionOp rule re-bases `axis`), or by the generic Tensor.eager_unary after the parameter has
    been re-based - which is decided by table coverage: every axis-like parameter name of every uncovered op must be among the
    names the re-basing helper handles."""
    col.rule(rule, "every axis-like parameter of a unary op is re-based before the op is applied to a batched array", floor=15)
    covered_refs = set()
    for reg in cat.registrations:
        if reg.target is None or len(reg.pattern) < 3 or not reg.registry.startswith("funsor.interpretations."):
            continue
        pats = [refs.resolve(p) if isinstance(p, (ast.Name, ast.Attribute)) else None for p in reg.pattern]
        if pats[0] == "funsor.terms.Unary" and pats[2] == "funsor.tensor.Tensor":
            ref = cat.op_class_ref(pats[1])
            if ref is not None:
                covered_refs.add(ref)
    covered_ops = {o.fq for ref in covered_refs for o in cat.ops_under(ref)}
    eu = prog.funcs.get("funsor.tensor::Tensor.eager_unary")
    if eu is None:
        raise AnalysisError("anchor Tensor.eager_unary not found")
    # the names handled on the generic path: string constants of eager_unary and of the helpers it calls with the op
    handled = set()
    todo, seen = [eu], set()
    while todo:
        g = todo.pop()
        if g.fq in seen:
            continue
        seen.add(g.fq)
        for x in ast.walk(g.node):
            if isinstance(x, ast.Constant) and isinstance(x.value, str):
                handled.add(x.value)
            if isinstance(x, ast.Name):
                lk = prog.lookup(refs.resolve(x) or "")
                if lk and lk[0] == "value" and isinstance(lk[2], (ast.Tuple, ast.List, ast.Set)):
                    handled |= {e.value for e in lk[2].elts if isinstance(e, ast.Constant) and isinstance(e.value, str)}
            if isinstance(x, ast.Call) and isinstance(x.func, ast.Name):
                lk = prog.lookup(refs.resolve(x.func) or "")
                if lk and lk[0] == "func" and lk[1].module is g.module:
                    todo.append(lk[1])
    for o in sorted(cat.ops.values(), key=lambda o_: o_.fq):
        axes = sorted(set(o.params) & AXIS_LIKE)
        if not axes or "funsor.ops.op.UnaryOp" not in cat.op_ancestors(o.fq):
            continue
        construct = f"{o.fq}::{', '.join(axes)}"
        if o.fq in covered_ops:
            col.ok(construct, "evaluated by a registered Tensor rule for its op class", o.module.loc(o.node), nontrivial=False)
            continue
        missing = [a for a in axes if a not in handled]
        col.check(not missing, construct, "re-based by the generic Tensor path before the op is applied",
                  f"`{o.var}` has the axis-like parameter(s) {missing}, no eager rule for Tensor covers its op class, and the generic Tensor.eager_unary applies it to the raw array "
                  "without re-basing them: a non-negative axis then addresses a batch input instead of an output dim (x.argmax(0), ops.flip(x, 0) on a tensor with inputs)",
                  o.module.loc(o.node))
