"""R15.8 - R15.10: the limit clauses of C15, decided by abstract interpretation over the IEEE special-value domain
(funsorlint/specval.py).

Targets are found by role: every implementation (default and registered, in every backend module) of the ops named logaddexp /
sample, logsumexp, safesub, safediv, reciprocal, and the log-space einsum kernels.  Each is interpreted on every combination of
input classes of its domain and the result is compared with the limit the property states.
"""
from __future__ import annotations

import ast
import itertools
from typing import Dict, List, Optional, Tuple

from ..catalogue import Catalogue
from ..model import Func, Program, norm
from ..report import Collector
from ..specval import FINITE, FMIN, LOGDOM, NAN, NEG, NINF, POS, ZERO, V, Interp, num
from .common import Refs

BACKENDS = ("funsor.ops.array", "funsor.torch.ops", "funsor.jax.ops")
OPS_MOD = "funsor.ops.array."
BUILTIN_MOD = "funsor.ops.builtin."


def _kinds_of(pattern: List[ast.AST]) -> Optional[List[bool]]:
    """per positional pattern element: True = array, False = Python scalar, None = not a numeric kernel"""
    out = []
    for p in pattern:
        names = [norm(x) for x in p.elts] if isinstance(p, ast.Tuple) else [norm(p)]
        if any(n.endswith("Number") or n in ("int", "float") for n in names):
            out.append(False)
        elif any(n in ("array", "np.ndarray", "torch.Tensor") or n.endswith("ndarray") or n.endswith(".Tensor") for n in names):
            out.append(True)
        else:
            return None
    return out


def _targets(prog: Program, cat: Catalogue, opname: str, op=None):
    """[(Func, [is_array per argument], backend module, how)] for every implementation of the op: the default implementation
    on Python scalars, every registration for numeric kinds in a backend module, and - when a backend has no registration
    covering arrays - the default implementation on arrays (that is what the dispatcher falls back to)."""
    out = []
    if op is None:
        for fq, o in cat.ops.items():
            if o.name == opname and (fq.startswith(OPS_MOD) or fq.startswith(BUILTIN_MOD)):
                op = o
    if op is None:
        return None, out
    arity = cat.arity_of(op.fq) or 1
    if op.impl is not None and op.impl in prog.funcs_by_node:
        f = prog.funcs_by_node[op.impl]
        raises_only = all(isinstance(s, (ast.Raise, ast.Expr)) for s in f.body)
        if not raises_only:
            out.append((f, [False] * arity, "funsor.ops.array", "default implementation (Python scalars)"))
            if opname == "logsumexp":
                out[-1] = (f, [True], "funsor.ops.array", "default implementation (arrays)")
    for r in cat.registrations:
        if r.registry != op.fq or r.method != "register" or r.target is None or r.module.name not in BACKENDS:
            continue
        kinds = _kinds_of(r.pattern)
        if kinds is None:
            continue
        out.append((r.target, kinds, r.module.name, f"registered for ({', '.join(norm(p) for p in r.pattern)}) in {r.module.name}"))
    if op.impl is not None and op.impl in prog.funcs_by_node and opname != "logsumexp":
        f = prog.funcs_by_node[op.impl]
        if not all(isinstance(s, (ast.Raise, ast.Expr)) for s in f.body):
            for backend in BACKENDS:
                if backend not in prog.modules:
                    continue
                covered = {tuple(k) for (_f, k, b, _h) in out if b == backend}
                for kinds in itertools.product([True, False], repeat=arity):
                    if any(kinds) and tuple(kinds) not in covered:
                        what = ", ".join("array" if k else "scalar" for k in kinds)
                        out.append((f, list(kinds), backend, f"default implementation reached for ({what}) on {backend}: no registration of `{op.var}` covers it"))
    return op, out


def _run(prog, refs, cat, f: Func, args: List[V], backend: str) -> Tuple[V, Interp]:
    it = Interp(prog, refs, cat, backend)
    res = it.call_func(f.node, f, args, {}, 0)
    return res, it


def _fmt(cls) -> str:
    from ..specval import ORDER
    return "{" + ",".join(c for c in ORDER if c in cls) + "}"


def _judge(col: Collector, f: Func, what: str, scen: str, res: V, it: Interp, want_no_nan=True, want_exact=None, forbid=None, loc=None) -> bool:
    construct = f"{f.fq}::{what}"
    if res.kind != "num":
        col.unresolved(construct, f"on {scen} the abstract result is `{res.kind}` ({'; '.join(it.opaque_reasons[:2])})", loc or f.loc())
        return False
    if want_no_nan and NAN in res.cls:
        org = it.origin.events[0] if it.origin.events else None
        where = f"; NaN first appears at line {org[0]} in {org[1]} with operands {org[2]}" if org else ""
        col.violation(construct, f"on {scen} the result may be NaN ({_fmt(res.cls)}){where}", loc or f.loc(), path=scen)
        return False
    if want_exact is not None and res.cls != frozenset(want_exact):
        col.violation(construct, f"on {scen} the result is {_fmt(res.cls)}, the exact limit is {_fmt(want_exact)}", loc or f.loc(), path=scen)
        return False
    if forbid and (res.cls & set(forbid)):
        col.violation(construct, f"on {scen} the result may be {_fmt(res.cls & set(forbid))}, which is not the limit", loc or f.loc(), path=scen)
        return False
    return True


def run(prog: Program, col: Collector, refs: Refs, cat: Catalogue, rule_log: str = "R15.8", rule_safe: Optional[str] = "R15.9"):
    # ------------------------------------------------------------------ R15.8 logaddexp / logsumexp / log-einsum
    col.rule(rule_log, "logaddexp, logsumexp and the log-space einsum are NaN-free on {-inf, finite} and exact at -inf (special-value abstract interpretation)", floor=5)
    n_scen = 0
    from .. import axioms
    lae_ops = [o for o in cat.ops.values() if axioms.identify(cat, o) == "LOGADDEXP"]
    if not lae_ops:
        col.unresolved("op logaddexp", "no op identified as LOGADDEXP in the catalogue", "")
    for op0 in sorted(lae_ops, key=lambda o: o.var):
        opname = op0.var
        op, targets = _targets(prog, cat, opname, op=op0)
        for f, kinds, backend, how in targets:
            ok = True
            for cx, cy in itertools.product(sorted(LOGDOM), repeat=2):
                args = [num({cx}, kinds[0]), num({cy}, kinds[1])]
                res, it = _run(prog, refs, cat, f, args, backend)
                n_scen += 1
                scen = f"{opname}({args[0]!r}, {args[1]!r})"
                tag = f"{opname}({', '.join('array' if k else 'scalar' for k in kinds)}) at -inf [{backend.split('.')[1]}]"
                if cx == NINF and cy == NINF:
                    ok = _judge(col, f, tag, scen, res, it, want_exact={NINF}) and ok
                else:
                    ok = _judge(col, f, tag, scen, res, it, forbid={NINF}) and ok
                if not ok:
                    break
            # the float range boundary: with an operand equal to the most negative finite float the limit is that float, never -inf / NaN
            if ok:
                for cx, cy in ((FMIN, FMIN), (FMIN, NINF), (NINF, FMIN), (FMIN, ZERO), (ZERO, FMIN)):
                    args = [num({cx}, kinds[0]), num({cy}, kinds[1])]
                    res, it = _run(prog, refs, cat, f, args, backend)
                    n_scen += 1
                    ok = _judge(col, f, tag, f"{opname}({args[0]!r}, {args[1]!r})", res, it, forbid={NINF}) and ok
                    if not ok:
                        break
            if ok:
                col.ok(f"{f.fq}::{tag}", f"{how}: 16 input class pairs + 5 at the most negative float, no NaN, -inf only for (-inf, -inf)", f.loc())
    op, targets = _targets(prog, cat, "logsumexp")
    subsets = [frozenset(s) for k in range(1, 5) for s in itertools.combinations(sorted(LOGDOM), k)]
    for f, kinds, backend, how in targets:
        ok = True
        for s in subsets:
            args = [num(s, True), V("none"), V("bool", {False})]
            res, it = _run(prog, refs, cat, f, args[:max(1, len(f.positional))], backend)
            n_scen += 1
            scen = f"logsumexp(array{_fmt(s)})"
            if s == {NINF}:
                ok = _judge(col, f, "logsumexp at -inf", scen, res, it, want_exact={NINF}) and ok
            elif NINF not in s:
                ok = _judge(col, f, "logsumexp at -inf", scen, res, it, forbid={NINF}) and ok
            else:
                ok = _judge(col, f, "logsumexp at -inf", scen, res, it) and ok
            if not ok:
                break
        if ok:
            # the float range boundary: every element is the most negative finite float (or that float and -inf): the limit is finite
            # (mixed finite sets are not asserted: the domain does not record that some element attains the maximum)
            for s in (frozenset({FMIN}), frozenset({FMIN, NINF})):
                args = [num(s, True), V("none"), V("bool", {False})]
                res, it = _run(prog, refs, cat, f, args[:max(1, len(f.positional))], backend)
                n_scen += 1
                scen = f"logsumexp(array{_fmt(s)})"
                if NINF in s:
                    ok = _judge(col, f, "logsumexp at -inf", scen, res, it) and ok
                else:
                    ok = _judge(col, f, "logsumexp at -inf", scen, res, it, forbid={NINF}) and ok
                if not ok:
                    break
        if ok:
            col.ok(f"{f.fq}::logsumexp at -inf", f"{how}: {len(subsets)} element-class sets + 2 at the most negative float, no NaN, all -inf gives -inf, finite elements never give -inf", f.loc())
    # log-space einsum kernels: functions named einsum in funsor.einsum.* that exponentiate (exp) their operands
    for fq, f in sorted(prog.funcs.items()):
        if not (f.module.name.startswith("funsor.einsum.") and f.name == "einsum" and f.cls is None):
            continue
        if not any(isinstance(n, ast.Call) and norm(n.func).endswith("exp") for n in ast.walk(f.node)):
            continue
        for backend in ("funsor.ops.array", "funsor.torch.ops"):
            if backend not in prog.modules:
                continue
            ok = True
            for s in subsets:
                args = [V("str"), num(s, True)]
                res, it = _run(prog, refs, cat, f, args, backend)
                n_scen += 1
                scen = f"einsum(eq, *operands) with operand elements in {_fmt(s)} [{backend}]"
                what = f"log-einsum at -inf [{backend.split('.')[1]}]"
                if s == {NINF}:
                    ok = _judge(col, f, what, scen, res, it, want_exact={NINF}) and ok
                else:
                    ok = _judge(col, f, what, scen, res, it) and ok
                if not ok:
                    break
            if ok:
                # the float range boundary: operands whose elements are all the most negative finite float contract to a finite value -
                # the stabilising shift has to reach down to them (a shift clamped at a positive bound leaves exp(x - shift) = 0)
                res, it = _run(prog, refs, cat, f, [V("str"), num({FMIN}, True)], backend)
                n_scen += 1
                ok = _judge(col, f, f"log-einsum at -inf [{backend.split('.')[1]}]", f"einsum(eq, *operands) with every operand element the most negative finite float [{backend}]",
                            res, it, forbid={NINF}) and ok
            if ok:
                col.ok(f"{f.fq}::log-einsum at -inf [{backend.split('.')[1]}]", f"{len(subsets)} element-class sets + 1 at the most negative float, no NaN, all -inf gives -inf", f.loc())

    # ------------------------------------------------------------------ R15.9 safe ops never produce NaN
    if rule_safe is None:
        col.cur.analysed["scenarios"] = n_scen
        return
    col.rule(rule_safe, "safe subtraction, division and reciprocal never produce NaN on their domain", floor=4)
    domains = {
        "safesub": (sorted(LOGDOM), sorted(LOGDOM), "x, y in {-inf, finite}"),
        "safediv": ([NEG, ZERO, POS], [ZERO, POS], "x finite, y >= 0 finite"),
        "reciprocal": ([NEG, ZERO, POS], None, "x finite (0 means +0.0)"),
    }
    # the ops the program DECLARES safe: the values of SAFE_BINARY_INVERSES (whatever they are called), plus reciprocal
    from .. import axioms
    declared = []
    for e in cat.table_entries("funsor.ops.op.SAFE_BINARY_INVERSES"):
        if e.value is None or isinstance(e.key, ast.Call):
            continue
        vop = cat.resolve_op(e.module, e.value)
        kab = axioms.identify(cat, cat.resolve_op(e.module, e.key)) if cat.resolve_op(e.module, e.key) is not None else None
        if vop is None:
            col.unresolved(f"SAFE_BINARY_INVERSES[{norm(e.key)}]", "value is not an op of the catalogue", e.loc)
            continue
        dom = domains["safesub"] if kab == "ADD" else domains["safediv"] if kab == "MUL" else None
        if dom is not None:
            declared.append((vop, dom, f"SAFE_BINARY_INVERSES[{norm(e.key)}] = {vop.var}"))
    rec = [o for o in cat.ops.values() if o.name == "reciprocal"]
    if rec:
        declared.append((rec[0], domains["reciprocal"], "reciprocal"))
    if not declared:
        col.unresolved("SAFE_BINARY_INVERSES", "no declared safe inverse found", "")
    for op0, (dx, dy, text), label in declared:
        opname = op0.name
        op, targets = _targets(prog, cat, opname, op=op0)
        if not targets:
            # an op without its own implementation body (operator.* default): analyse the default through dispatch
            node = ast.parse("op(x, y)").body[0].value
            for backend in BACKENDS:
                if backend not in prog.modules:
                    continue
                for arr in (False, True):
                    bad = None
                    for combo in (itertools.product(dx, dy) if dy is not None else ((c,) for c in dx)):
                        it = Interp(prog, refs, cat, backend)
                        res = it.call_op(node, op0, [num({c}, arr) for c in combo], {}, 0)
                        n_scen += 1
                        if res.kind == "num" and NAN in res.cls and bad is None:
                            bad = (combo, res)
                    construct = f"{op0.fq}::{label} NaN-free ({'arrays' if arr else 'scalars'}) [{backend.split('.')[1]}]"
                    if bad:
                        col.violation(construct, f"the op declared as safe inverse is `{op0.var}`; on ({', '.join(bad[0])}) it gives {_fmt(bad[1].cls)}: the 'safe' inverse produces NaN", op0.module.loc(op0.node))
                    else:
                        col.ok(construct, f"no NaN on {text}", op0.module.loc(op0.node))
            continue
        for f, kinds, backend, how in targets:
            ok = True
            combos = itertools.product(dx, dy) if dy is not None else ((c,) for c in dx)
            for combo in combos:
                args = [num({c}, kinds[i] if i < len(kinds) else False) for i, c in enumerate(combo)]
                res, it = _run(prog, refs, cat, f, args, backend)
                n_scen += 1
                scen = f"{opname}({', '.join(map(repr, args))})"
                if res.kind == "none" and it.raised:
                    continue  # declines by raising
                ok = _judge(col, f, f"{opname} NaN-free", scen, res, it) and ok
                if not ok:
                    break
            if ok:
                col.ok(f"{f.fq}::{opname} NaN-free", f"{how}: no NaN on {text}", f.loc())
    col.cur.analysed["scenarios"] = n_scen
    # array kernels take their finite bounds from the dtype of their operand (np.finfo(x.dtype)), not from the float64 constant
    # sys.float_info: cast to float32 that constant overflows to inf and the clamp disappears
    for r in cat.registrations:
        f = r.target
        if f is None or r.module.name not in BACKENDS or r.registry not in cat.ops or isinstance(f.node, ast.Lambda):
            continue
        kinds = _kinds_of(r.pattern)
        if not kinds or not any(kinds):
            continue
        for n in ast.walk(f.node):
            if isinstance(n, ast.Attribute) and (refs.resolve(n) or "").startswith("sys.float_info"):
                col.violation(f"{f.fq}::{norm(n)}", f"the array kernel of `{cat.ops[r.registry].var}` uses the float64 constant `{norm(n)}` instead of the finfo of its operand's dtype: "
                              "for float32 arrays the bound overflows to inf and the clamp that keeps the op NaN-free is gone", f.loc(n), rule=rule_safe)


# ------------------------------------------------------------------ R15.10 scalar / array agreement at special values
NAN_FREE_UNARY = {"SIGMOID", "TANH", "EXP", "ATAN"}
_DOMAIN = {  # input classes inside the op's domain, per argument (default: all of the extended reals)
    "log": [[ZERO, POS, "PINF"]], "log1p": [[ZERO, POS, "PINF"]], "sqrt": [[ZERO, POS, "PINF"]], "reciprocal": [[NEG, POS, "PINF", NINF]],
    "truediv": [None, [NEG, POS, "PINF", NINF]], "safediv": [[NEG, ZERO, POS], [ZERO, POS]], "safesub": [sorted(LOGDOM), sorted(LOGDOM)],
    "pow": [[ZERO, POS], [NEG, ZERO, POS]], "logsumexp": [sorted(LOGDOM)], "amax": [sorted(LOGDOM) + ["PINF"]], "atanh": [[ZERO]], "logaddexp": [sorted(LOGDOM), sorted(LOGDOM)], "sample": [sorted(LOGDOM), sorted(LOGDOM)],
}


def run_agreement(prog: Program, col: Collector, refs: Refs, cat: Catalogue, rule: str = "R15.10"):
    """'Inside its domain each op gives the same answer on a Python scalar and elementwise on arrays' - decided at the special
    values: for every unary/binary op whose scalar and array implementations the interpreter can both follow, and every input
    class combination of its domain on which neither raises, the two abstract results must have a class in common."""
    col.rule(rule, "scalar and array implementations of an op agree at the special values (-inf, 0, +inf) of its domain", floor=3)
    from .. import axioms
    node = ast.parse("op(x)").body[0].value
    allc = [NINF, NEG, ZERO, POS, "PINF"]
    compared = 0
    for fq, op in sorted(cat.ops.items()):
        ar = cat.arity_of(fq)
        if ar not in (1, 2):
            continue
        dom = _DOMAIN.get(op.name, [None] * ar)
        dom = [(d if d is not None else allc) for d in (dom + [None] * ar)[:ar]]
        for backend in BACKENDS:
            if backend not in prog.modules:
                continue
            n_cmp, bad, nan_bad = 0, None, None
            for combo in itertools.product(*dom):
                res = {}
                for arr in (False, True):
                    it = Interp(prog, refs, cat, backend)
                    try:
                        v = it.call_op(node, op, [num({x}, arr) for x in combo], {}, 0)
                    except RecursionError:
                        v = V("opaque")
                    res[arr] = (v, bool(it.raised))
                (sv_, sr), (av_, ar_) = res[False], res[True]
                # a bounded / monotone unary function has a limit at both infinities: no implementation may answer NaN there
                if ar == 1 and axioms.identify(cat, op) in NAN_FREE_UNARY:
                    for arr_, (v_, raised_) in res.items():
                        if v_.kind == "num" and NAN in v_.cls and not raised_ and nan_bad is None:
                            nan_bad = (combo, arr_, v_)
                if sv_.kind != "num" or av_.kind != "num" or sr or ar_:
                    continue
                n_cmp += 1
                if not (sv_.cls & av_.cls) and bad is None:
                    bad = (combo, sv_, av_)
            if nan_bad is not None:
                combo_, arr_, v_ = nan_bad
                col.violation(f"{op.fq}::limits [{backend.split('.')[1]}]", f"`{op.name}` on {'an array' if arr_ else 'a scalar'} of class {combo_[0]} may be NaN ({_fmt(v_.cls)}): the function has "
                              "a finite limit there (sigmoid(+inf) = 1, sigmoid(-inf) = 0); an implementation that forms inf/inf or inf-inf on the way loses it", op.module.loc(op.node))
            if not n_cmp:
                continue
            compared += 1
            construct = f"{op.fq}::scalar vs array [{backend.split('.')[1]}]"
            if bad:
                combo, sv_, av_ = bad
                col.violation(construct, f"`{op.name}` on ({', '.join(combo)}): the scalar implementation gives {_fmt(sv_.cls)}, the array implementation gives {_fmt(av_.cls)}", op.module.loc(op.node))
            else:
                col.ok(construct, f"{n_cmp} input class combinations agree", op.module.loc(op.node))
    col.cur.analysed["ops_compared"] = compared

