"""A tiny evaluator of set-valued bookkeeping code over finite "worlds".

Several rules of funsor decide what to do by set algebra over the names of a term's inputs (`reduced_vars & real_vars`, `k not in
reduced_names`, `d.dtype != "real"` ...).  Whether such code treats every class of input correctly is a finite question: an input
is real or integer, is reduced or kept, and belongs to the first operand, the second, or both.  A *world* is a small set of such
atoms; the evaluator interprets the set expressions of one function in every world (the analyser's own interpreter over the syntax
tree - nothing of the repository is executed) and the calling rule states what must hold at a given construct.

Anything outside the fragment evaluates to UNKNOWN; a test that is UNKNOWN sends the path down both arms.
"""
from __future__ import annotations

import ast
import itertools
from typing import Callable, Dict, Iterable, List, Optional, Tuple

from ..model import norm


class _Unknown:
    def __repr__(self):
        return "UNKNOWN"


UNKNOWN = _Unknown()


class Atom(tuple):
    """(dtype, reduced, where) - where is 'lhs', 'rhs' or 'both'"""
    __slots__ = ()

    @property
    def dtype(self):
        return self[0]

    @property
    def reduced(self):
        return self[1]

    @property
    def where(self):
        return self[2]

    def __repr__(self):
        return f"{'real' if self[0] == 'real' else 'int'}-{'reduced' if self[1] else 'kept'}-in-{self[2]}"


ATOMS = [Atom((d, r, w)) for d in ("real", "int") for r in (True, False) for w in ("lhs", "rhs", "both")]


def worlds(max_atoms: int = 3) -> Iterable[frozenset]:
    for n in range(0, max_atoms + 1):
        for c in itertools.combinations(ATOMS, n):
            yield frozenset(c)


class Operand:
    """a parameter that stands for a term with `.inputs`"""

    def __init__(self, side):
        self.side = side


def _is_set(v):
    return isinstance(v, frozenset)


def ev(e: ast.AST, env: Dict[str, object]):
    """value of expression `e`: a frozenset of atoms, an Atom, a str, a bool, an Operand, a tuple of values, or UNKNOWN"""
    if isinstance(e, ast.Constant):
        return e.value if isinstance(e.value, (str, bool)) else UNKNOWN
    if isinstance(e, ast.Name):
        return env.get(e.id, UNKNOWN)
    if isinstance(e, ast.Tuple) or isinstance(e, ast.List):
        vals = [ev(x, env) for x in e.elts]
        return tuple(vals)
    if isinstance(e, ast.Attribute):
        v = ev(e.value, env)
        if isinstance(v, Operand) and e.attr in ("inputs", "input_vars"):
            return frozenset(a for a in env["<world>"] if a.where in (v.side, "both"))
        if isinstance(v, Atom):
            if e.attr == "dtype":
                return v.dtype
            if e.attr == "name":
                return v
        return UNKNOWN
    if isinstance(e, ast.Call):
        fn = e.func
        if isinstance(fn, ast.Attribute):
            recv = ev(fn.value, env)
            if _is_set(recv):
                if fn.attr in ("items", "keys", "copy", "values") and not e.args:
                    return recv
                if fn.attr in ("isdisjoint", "issubset", "issuperset", "union", "intersection", "difference") and len(e.args) == 1:
                    o = ev(e.args[0], env)
                    if not _is_set(o):
                        return UNKNOWN
                    return {"isdisjoint": recv.isdisjoint(o), "issubset": recv <= o, "issuperset": recv >= o, "union": recv | o, "intersection": recv & o,
                            "difference": recv - o}[fn.attr]
            return UNKNOWN
        if isinstance(fn, ast.Name) and fn.id in ("frozenset", "set", "OrderedDict", "dict", "tuple", "list", "sorted"):
            if not e.args:
                return frozenset()
            if len(e.args) != 1:
                return UNKNOWN
            a = e.args[0]
            if isinstance(a, (ast.GeneratorExp, ast.ListComp, ast.SetComp)):
                return _comp(a, env)
            v = ev(a, env)
            if _is_set(v):
                return v
            if isinstance(v, tuple) and all(isinstance(x, Atom) for x in v):
                return frozenset(v)
            return UNKNOWN
        if isinstance(fn, ast.Name) and fn.id in ("any", "all") and len(e.args) == 1 and isinstance(e.args[0], (ast.GeneratorExp, ast.ListComp)):
            c = e.args[0]
            outs = _comp_values(c, env)
            if outs is None or any(not isinstance(o, bool) for o in outs):
                return UNKNOWN
            return any(outs) if fn.id == "any" else all(outs)
        if isinstance(fn, ast.Name) and fn.id == "bool" and len(e.args) == 1:
            return _truth(ev(e.args[0], env))
        return UNKNOWN
    if isinstance(e, ast.BinOp) and isinstance(e.op, (ast.BitAnd, ast.BitOr, ast.Sub, ast.BitXor)):
        a, b = ev(e.left, env), ev(e.right, env)
        if not (_is_set(a) and _is_set(b)):
            return UNKNOWN
        return a & b if isinstance(e.op, ast.BitAnd) else a | b if isinstance(e.op, ast.BitOr) else a - b if isinstance(e.op, ast.Sub) else a ^ b
    if isinstance(e, ast.UnaryOp) and isinstance(e.op, ast.Not):
        v = _truth(ev(e.operand, env))
        return UNKNOWN if v is UNKNOWN else not v
    if isinstance(e, ast.BoolOp):
        vals = [_truth(ev(x, env)) for x in e.values]
        if isinstance(e.op, ast.And):
            if any(v is False for v in vals):
                return False
            return UNKNOWN if any(v is UNKNOWN for v in vals) else True
        if any(v is True for v in vals):
            return True
        return UNKNOWN if any(v is UNKNOWN for v in vals) else False
    if isinstance(e, ast.Compare) and len(e.ops) == 1:
        a, b = ev(e.left, env), ev(e.comparators[0], env)
        op = e.ops[0]
        if isinstance(op, (ast.In, ast.NotIn)):
            if isinstance(a, Atom) and _is_set(b):
                return (a in b) == isinstance(op, ast.In)
            return UNKNOWN
        if isinstance(a, str) and isinstance(b, str) and isinstance(op, (ast.Eq, ast.NotEq)):
            return (a == b) == isinstance(op, ast.Eq)
        if _is_set(a) and _is_set(b):
            if isinstance(op, ast.Eq):
                return a == b
            if isinstance(op, ast.NotEq):
                return a != b
            if isinstance(op, ast.LtE):
                return a <= b
            if isinstance(op, ast.Lt):
                return a < b
            if isinstance(op, ast.GtE):
                return a >= b
            if isinstance(op, ast.Gt):
                return a > b
        return UNKNOWN
    if isinstance(e, ast.IfExp):
        t = _truth(ev(e.test, env))
        if t is UNKNOWN:
            a, b = ev(e.body, env), ev(e.orelse, env)
            return a if a == b and a is not UNKNOWN else UNKNOWN
        return ev(e.body if t else e.orelse, env)
    return UNKNOWN


def _truth(v):
    if isinstance(v, bool):
        return v
    if _is_set(v):
        return bool(v)
    return UNKNOWN


def _bind(target: ast.AST, item, env):
    if isinstance(target, ast.Name):
        env[target.id] = item
    elif isinstance(target, (ast.Tuple, ast.List)):
        if isinstance(item, Atom):  # (k, d) over .items(): both stand for the same input
            for t in target.elts:
                _bind(t, item, env)
        elif isinstance(item, tuple) and len(item) == len(target.elts):
            for t, x in zip(target.elts, item):
                _bind(t, x, env)
        else:
            for t in target.elts:
                _bind(t, UNKNOWN, env)


def _comp_values(c, env) -> Optional[List[object]]:
    """the values of the element expression, in some order; None when an iterable or a filter is UNKNOWN"""
    outs: List[object] = []

    def rec(i, env_):
        if i == len(c.generators):
            el = c.elt
            if isinstance(el, ast.Tuple) and el.elts:
                el = el.elts[0]  # (k, d) pairs of a mapping: the key
            outs.append(ev(el, env_))
            return True
        g = c.generators[i]
        it = ev(g.iter, env_)
        if isinstance(it, tuple):
            items = list(it)
        elif _is_set(it):
            items = sorted(it)
        else:
            return False
        for x in items:
            e2 = dict(env_)
            _bind(g.target, x, e2)
            keep = True
            for cond in g.ifs:
                t = _truth(ev(cond, e2))
                if t is UNKNOWN:
                    return False
                if not t:
                    keep = False
                    break
            if keep and not rec(i + 1, e2):
                return False
        return True

    return outs if rec(0, env) else None


def _comp(c, env):
    outs = _comp_values(c, env)
    if outs is None or any(not isinstance(o, Atom) for o in outs):
        return UNKNOWN
    return frozenset(outs)


def run_paths(body: List[ast.stmt], env: Dict[str, object], on_stmt: Callable[[ast.stmt, Dict[str, object]], None], budget: List[int]):
    """interpret `body` along every path; `on_stmt(stmt, env)` is called before each simple statement.  Returns the environments that
    fall through the end of the block."""
    envs = [env]
    for st in body:
        nxt = []
        for en in envs:
            budget[0] -= 1
            if budget[0] < 0:
                raise OverflowError("path budget")
            if isinstance(st, ast.If):
                t = _truth(ev(st.test, en))
                if t is not False:
                    nxt.extend(run_paths(st.body, dict(en), on_stmt, budget))
                if t is not True:
                    nxt.extend(run_paths(st.orelse, dict(en), on_stmt, budget))
                continue
            on_stmt(st, en)
            if isinstance(st, (ast.Return, ast.Raise)):
                continue
            if isinstance(st, ast.Assign) and len(st.targets) == 1:
                v = ev(st.value, en)
                tgt = st.targets[0]
                if isinstance(tgt, ast.Name):
                    en[tgt.id] = v
                elif isinstance(tgt, (ast.Tuple, ast.List)):
                    _bind(tgt, v if isinstance(v, tuple) else UNKNOWN, en)
                elif isinstance(tgt, ast.Subscript) and isinstance(tgt.value, ast.Name):
                    en[tgt.value.id] = UNKNOWN
            elif isinstance(st, ast.AugAssign) and isinstance(st.target, ast.Name):
                a, b = en.get(st.target.id, UNKNOWN), ev(st.value, en)
                if _is_set(a) and _is_set(b) and isinstance(st.op, (ast.BitAnd, ast.BitOr, ast.Sub)):
                    en[st.target.id] = a & b if isinstance(st.op, ast.BitAnd) else a | b if isinstance(st.op, ast.BitOr) else a - b
                else:
                    en[st.target.id] = UNKNOWN
            elif isinstance(st, ast.Expr) and isinstance(st.value, ast.Call) and isinstance(st.value.func, ast.Attribute) and isinstance(st.value.func.value, ast.Name):
                # X.update(Y) on mappings of inputs; any other mutating call makes X unknown
                c = st.value
                x = c.func.value.id
                if c.func.attr == "update" and len(c.args) == 1 and _is_set(en.get(x, UNKNOWN)) and _is_set(ev(c.args[0], en)):
                    en[x] = en[x] | ev(c.args[0], en)
                elif c.func.attr in ("update", "add", "discard", "remove", "pop", "clear", "append", "extend", "setdefault", "popitem", "move_to_end"):
                    en[x] = UNKNOWN
            elif isinstance(st, (ast.For, ast.While, ast.With, ast.Try)):
                # not interpreted: everything assigned inside becomes unknown
                for y in ast.walk(st):
                    if isinstance(y, ast.Name) and isinstance(y.ctx, ast.Store):
                        en[y.id] = UNKNOWN
            nxt.append(en)
        envs = nxt
    return envs
