"""Rules about shape / index arithmetic of output domains (C06), decided on the extracted expressions."""
from __future__ import annotations

import ast
from typing import Dict, List, Optional

from ..catalogue import Catalogue
from ..model import AnalysisError, Program, norm
from ..report import Collector
from .common import Refs, walk_no_nested


def r_two_operand_shapes_broadcast(prog: Program, col: Collector, refs: Refs, cat: Catalogue, rule: str):
    """A find_domain rule over two array operands that builds the result shape from the *leading* (batch) dims of both operands has to
    broadcast them (`broadcast_shape`): the array kernels do, so a size-1 batch dim of one operand takes the size of the other's.
    Picking the batch dims of one operand (the longer one, the left one) declares Reals[1, ...] where the kernel returns (4, ...)."""
    col.rule(rule, "the batch dims of two operands are combined with broadcast_shape in every find_domain rule", floor=5)
    n = 0
    for reg in cat.registrations:
        f = reg.target
        if f is None or reg.registry != "funsor.domains.find_domain" or isinstance(f.node, ast.Lambda) or len(f.positional) != 3:
            continue
        _op, lhs, rhs = f.positional

        def leading(e, P):
            """`P.shape` whole or `P.shape[:k]` (a slice from the front) occurring in e"""
            out = []
            for x in ast.walk(e):
                if isinstance(x, ast.Attribute) and x.attr == "shape" and isinstance(x.value, ast.Name) and x.value.id == P:
                    par = f.module.parent.get(x)
                    if isinstance(par, ast.Subscript) and par.value is x:
                        if isinstance(par.slice, ast.Slice) and par.slice.lower is None:
                            out.append(par)
                    elif isinstance(par, ast.Call) and isinstance(par.func, ast.Name) and par.func.id == "len":
                        pass
                    else:
                        out.append(x)
            return out

        for st in walk_no_nested(f.node):
            if isinstance(st, ast.Assign):
                val = st.value
            elif isinstance(st, ast.Return) and st.value is not None:
                val = st.value
            else:
                continue
            L, R = leading(val, lhs), leading(val, rhs)
            if not (L and R):
                continue
            n += 1
            bcs = [c for c in ast.walk(val) if isinstance(c, ast.Call) and (refs.resolve(c.func) or norm(c.func)).rsplit(".", 1)[-1] == "broadcast_shape"]
            inside = lambda x: any(any(x is y for y in ast.walk(c)) for c in bcs)
            ok = bool(bcs) and any(inside(x) for x in L) and any(inside(x) for x in R)
            col.check(ok, f"{f.fq}::{norm(st)[:70]}", "the leading dims of both operands go through broadcast_shape",
                      f"`{norm(val)[:70]}` builds the result shape from the leading dims of both `{lhs}` and `{rhs}` without broadcast_shape: a batch dim of size 1 in one operand "
                      "is broadcast by the array kernel to the other operand's size, so the declared output differs from the shape of the evaluated result", f.loc(st))
    col.cur.analysed["two_operand_shape_expressions"] = n


def r_ellipsis_fill(prog: Program, col: Collector, refs: Refs, cat: Catalogue, rule: str):
    """normalize_ellipsis(index, size) replaces the Ellipsis by slice(None) fillers so that the index addresses exactly `size` dims:
    len(left) + fillers + len(right) == size.  The filler count is evaluated by the analyser's integer evaluator for all
    len(left), len(right) in 0..3 and sizes up to 6, with and without an Ellipsis in the index (len(index) = left + right + 1 / + 0)."""
    from .kernels import _eval_int
    from .c04 import _NoEval
    col.rule(rule, "an expanded Ellipsis fills the index up to exactly the number of dims", floor=1)
    f = prog.funcs.get("funsor.ops.builtin::normalize_ellipsis")
    if f is None:
        raise AnalysisError("anchor funsor.ops.builtin.normalize_ellipsis not found")
    indexp, sizep = f.positional[:2]
    # left, right = parse_ellipsis(index)
    lr = None
    for st in walk_no_nested(f.node):
        if isinstance(st, ast.Assign) and isinstance(st.targets[0], ast.Tuple) and len(st.targets[0].elts) == 2 and isinstance(st.value, ast.Call) \
                and (refs.resolve(st.value.func) or "").endswith("parse_ellipsis"):
            lr = (st.targets[0].elts[0].id, st.targets[0].elts[1].id)
    fills = [x for x in walk_no_nested(f.node) if isinstance(x, ast.BinOp) and isinstance(x.op, ast.Mult) and isinstance(x.left, ast.Tuple) and len(x.left.elts) == 1
             and norm(x.left.elts[0]) == "slice(None)"]
    if lr is None or len(fills) != 1:
        col.unresolved(f"{f.fq}::fill", "left/right split or the filler expression not found", f.loc())
        return
    left, right = lr
    bad = None
    tried = 0
    try:
        for L in range(4):
            for R in range(4):
                for e in (0, 1):
                    if e == 0 and R:
                        continue  # without an Ellipsis everything is `left`
                    for size in range(L + R, 7):
                        env = {f"len({left})": L, f"len({right})": R, sizep: size, f"len({indexp})": L + R + e}
                        k = _eval_int(fills[0].right, env)
                        tried += 1
                        if L + max(0, k) + R != size and bad is None:
                            bad = (L, R, e, size, k)
    except _NoEval as ex:
        col.unresolved(f"{f.fq}::fill", f"filler count not evaluated ({ex})", f.loc(fills[0]))
        return
    # the result is left + fill + right
    rets = [r for r in walk_no_nested(f.node) if isinstance(r, ast.Return) and r.value is not None]
    order_ok = False
    for r in rets:
        terms = []
        def flat(x):
            if isinstance(x, ast.BinOp) and isinstance(x.op, ast.Add):
                flat(x.left); flat(x.right)
            else:
                terms.append(norm(x))
        flat(r.value)
        if len(terms) == 3 and terms[0] == left and terms[2] == right:
            order_ok = True
    col.check(bad is None and order_ok, f"{f.fq}::{norm(fills[0])[:60]}", f"len(left) + fillers + len(right) == size in {tried} cases; the result is left + fillers + right",
              (f"with {bad[0]} entries before and {bad[1]} after the Ellipsis ({'no ' if not bad[2] else ''}Ellipsis present) and size {bad[3]} the index is filled with {bad[4]} "
               f"slice(None) entries, {bad[0] + max(0, bad[4]) + bad[1]} in total instead of {bad[3]}: the entries after the Ellipsis address the wrong dims") if bad else
              "the result is not left + fillers + right", f.loc(fills[0]))


def r_raw_getitem_indexes_in_place(prog: Program, col: Collector, refs: Refs, cat: Catalogue, rule: str):
    """The raw kernel of ops.getitem (what a compiled / traced program applies to arrays) must select along dimension `offset` and
    leave every other dimension where it is - that is what the tensor rule of the interpreter does.  Read off the code: every
    return is `lhs[index]` on the first operand itself (no swapaxes / transpose / moveaxis of it), and the index is the second
    operand (offset 0) or a tuple whose entry number `offset` is the second operand, all earlier entries being slice(None) -
    evaluated symbolically for offset = 0..4."""
    col.rule(rule, "the raw getitem kernel indexes dimension `offset` of its first operand and keeps the order of the others", floor=1)
    f = prog.funcs.get("funsor.ops.builtin::getitem")
    if f is None:
        raise AnalysisError("anchor funsor.ops.builtin.getitem not found")
    lhs, rhs = f.positional[:2]
    offp = f.positional[2] if len(f.positional) > 2 else "offset"

    def tuple_shape(e, off):
        """abstract value of a tuple expression: list of 'FULL' / 'RHS' / '?'"""
        if isinstance(e, ast.Tuple):
            out = []
            for x in e.elts:
                if isinstance(x, ast.Name) and x.id == rhs:
                    out.append("RHS")
                elif norm(x) == "slice(None)" or (isinstance(x, ast.Call) and isinstance(x.func, ast.Name) and x.func.id == "slice" and all(isinstance(a, ast.Constant) and a.value is None for a in x.args)):
                    out.append("FULL")
                else:
                    out.append("?")
            return out
        if isinstance(e, ast.BinOp) and isinstance(e.op, ast.Add):
            a, b = tuple_shape(e.left, off), tuple_shape(e.right, off)
            return None if a is None or b is None else a + b
        if isinstance(e, ast.BinOp) and isinstance(e.op, ast.Mult):
            from .kernels import _eval_int
            from .c04 import _NoEval
            for t, k in ((e.left, e.right), (e.right, e.left)):
                ts = tuple_shape(t, off)
                if ts is not None:
                    try:
                        return ts * max(0, _eval_int(k, {offp: off}))
                    except _NoEval:
                        return None
            return None
        return None

    rets = [r for r in walk_no_nested(f.node) if isinstance(r, ast.Return) and r.value is not None]
    bad = None
    n = 0
    for off in range(5):
        # which return is taken for this offset: evaluate the enclosing tests over {offset: off}
        from .kernels import _eval_int
        from .c04 import _NoEval
        taken = None
        for r in sorted(rets, key=lambda x: x.lineno):
            live = True
            for a in f.module.ancestors(r):
                if isinstance(a, ast.If):
                    try:
                        tv = bool(_eval_int(a.test, {offp: off}))
                    except _NoEval:
                        tv = None
                    inside_body = any(r is y for st in a.body for y in ast.walk(st))
                    if tv is not None and tv != inside_body:
                        live = False
            # an earlier `if c: return` that is taken pre-empts the later ones
            if live:
                taken = r
                break
        if taken is None:
            continue
        n += 1
        v = taken.value
        if not (isinstance(v, ast.Subscript) and isinstance(v.value, ast.Name) and v.value.id == lhs):
            rearranged = any(isinstance(x, ast.Attribute) and x.attr in ("swapaxes", "transpose", "moveaxis", "permute", "T", "rollaxis") for x in ast.walk(v))
            if not rearranged:
                col.unresolved(f"{f.fq}::offset {off}", f"`{norm(v)[:50]}` is not a subscript of `{lhs}`; its axis behaviour is not modelled", f.loc(taken))
                continue
            bad = bad or (off, f"returns `{norm(v)[:50]}`, which is not an index into `{lhs}` itself (the operand is re-arranged before it is indexed, so the remaining dims come out in another order)", taken)
            continue
        idx = v.slice
        if isinstance(idx, ast.Name) and idx.id == rhs:
            shape = ["RHS"]
        else:
            shape = tuple_shape(idx, off)
        if shape is None:
            col.unresolved(f"{f.fq}::offset {off}", f"index expression `{norm(idx)[:50]}` not evaluated", f.loc(taken))
            continue
        if not (len(shape) == off + 1 and shape[off] == "RHS" and all(s == "FULL" for s in shape[:off])):
            bad = bad or (off, f"the index is {shape}: `{rhs}` is not entry number {off} after {off} full slices", taken)
    col.check(bad is None, f"{f.fq}::index tuple", f"lhs[(slice(None),) * offset + (rhs,)] in effect, for offset 0..4 ({n} cases)",
              f"for offset {bad[0]} the kernel {bad[1]}; the interpreter's tensor rule selects along dimension {bad[0]} in place, so a compiled program and the interpreted term disagree" if bad else "",
              f.loc(bad[2]) if bad else f.loc())


def r_shape_only_ops_keep_dtype(prog: Program, col: Collector, refs: Refs, cat: Catalogue, rule: str):
    """Indexing, slicing and reshaping select or re-arrange entries; the entries themselves are unchanged, so the eager result has the
    dtype of the operand (a bounded integer stays a bounded integer - that is what find_domain declares for the lazy term).  A rule
    for such an op that builds its result with `Tensor(data, inputs)` falls back to the default dtype "real"."""
    col.rule(rule, "eager rules for getitem / getslice / reshape build their Tensor with the operand's dtype", floor=4)
    SHAPE_ONLY = ("GetitemOp", "GetsliceOp", "ReshapeOp")
    n = 0
    seen = set()
    for reg in cat.registrations:
        f = reg.target
        if f is None or len(reg.pattern) < 3 or isinstance(f.node, ast.Lambda) or f.fq in seen or not reg.registry.startswith("funsor.interpretations."):
            continue
        pats = [refs.resolve(p) if isinstance(p, (ast.Name, ast.Attribute)) else None for p in reg.pattern]
        if pats[0] not in ("funsor.terms.Unary", "funsor.terms.Binary") or not (pats[1] or "").rsplit(".", 1)[-1] in SHAPE_ONLY or pats[2] != "funsor.tensor.Tensor":
            continue
        seen.add(f.fq)
        operand = f.positional[1]
        for r in [x for x in walk_no_nested(f.node) if isinstance(x, ast.Return) and isinstance(x.value, ast.Call) and (refs.resolve(x.value.func) or "") == "funsor.tensor.Tensor"]:
            n += 1
            c = r.value
            dt = c.args[2] if len(c.args) >= 3 else next((k.value for k in c.keywords if k.arg == "dtype"), None)
            ok = dt is not None and norm(dt) == f"{operand}.dtype"
            col.check(ok, f"{f.fq}::{norm(r)[:60]}", f"the result carries `{operand}.dtype`",
                      f"the result is built as `{norm(c)[:50]}`" + (" without a dtype (default \"real\")" if dt is None else f" with dtype `{norm(dt)}`")
                      + f": selecting entries of a Bint-valued `{operand}` then yields a real-valued Tensor, while the lazy term is declared with the operand's dtype", f.loc(r))
    col.cur.analysed["shape_only_tensor_results"] = n
