"""Self-test of the analyser: scratch-copy variants of /repo/funsor.

* must-fire variants: one structural fact is broken by a source edit (the variant still parses); the check of the named
  property must report a violation whose rule and construct match the expectation.
* must-stay-silent variants: a behaviour-preserving edit; the check must report no violation.
* seeded changes under /verif/seeded/<name>/patch.diff (written by independent sub-agents, confirmed against the real code)
  are replayed as must-fire variants when their meta.json says which check is expected to detect them.

A variant whose anchor text is absent from the tree under test is *skipped* (the tree was edited), never failed; a derived
transform that finds nothing to rewrite in its function (no `return <expr>`, no if/else) is counted as n/a.
A must-fire variant that is not reported, or a silent variant that is, is a defect of the checker: exit 2
(SELFTEST-FAIL), never a VIOLATION.  Scratch copies live under a mkdtemp directory outside /repo and /verif and are removed.
"""
from __future__ import annotations

import json
import multiprocessing
import os
import shutil
import subprocess
import tempfile
import time
from typing import Dict, List, Optional

VERIF = os.path.dirname(os.path.dirname(os.path.abspath(__file__)))


def load_variants() -> List[dict]:
    from .selftest_variants import VARIANTS
    out = []
    seen = set()
    for v in VARIANTS:
        v = dict(v)
        assert v["id"] not in seen, f"duplicate variant id {v['id']}"
        seen.add(v["id"])
        v.setdefault("kind", "fire")
        v.setdefault("edits", [(v.pop("file"), v.pop("old"), v.pop("new"))] if "file" in v else [])
        out.append(v)
    sdir = os.path.join(VERIF, "seeded")
    if os.path.isdir(sdir):
        for name in sorted(os.listdir(sdir)):
            mp = os.path.join(sdir, name, "meta.json")
            pp = os.path.join(sdir, name, "patch.diff")
            if not (os.path.exists(mp) and os.path.exists(pp)):
                continue
            with open(mp) as f:
                meta = json.load(f)
            det = meta.get("detected_by")
            if not det:
                continue  # recorded as not detected by any static rule (see DESIGN.md); nothing to assert
            for d in det:
                out.append({"id": f"seeded/{name}@{d['property']}", "prop": d["property"], "kind": "fire", "patch": pp,
                            "expect_rule": d.get("rule"), "expect_in": d.get("construct_contains"), "edits": []})
    return out


def rename_locals(src: str, qual: str) -> Optional[str]:
    """Behaviour-preserving refactor used by the silent variants: every local variable of function `qual` ('f' or 'Class.f')
    that is neither a parameter (of it or of a nested function / lambda / comprehension-free scope) nor declared global is
    renamed to <name>_r; the whole module is re-emitted with ast.unparse (so comments and layout change as well)."""
    import ast
    tree = ast.parse(src)
    parts = qual.split(".")
    scope = tree
    target = None
    for i, pname in enumerate(parts):
        found = None
        for n in ast.walk(scope) if i == 0 else ast.iter_child_nodes(scope):
            if isinstance(n, (ast.FunctionDef, ast.ClassDef)) and n.name == pname:
                found = n
                break
        if found is None:
            return None
        scope = found
        target = found
    if not isinstance(target, ast.FunctionDef):
        return None
    params = set()
    for n in ast.walk(target):
        if isinstance(n, (ast.FunctionDef, ast.Lambda)):
            a = n.args
            for x in a.posonlyargs + a.args + a.kwonlyargs + ([a.vararg] if a.vararg else []) + ([a.kwarg] if a.kwarg else []):
                params.add(x.arg)
        if isinstance(n, (ast.Global, ast.Nonlocal)):
            params.update(n.names)
        if isinstance(n, (ast.FunctionDef, ast.ClassDef)) and n is not target:
            params.add(n.name)
        if isinstance(n, (ast.Import, ast.ImportFrom)):
            for al in n.names:
                params.add((al.asname or al.name).split(".")[0])
        if isinstance(n, ast.ExceptHandler) and n.name:
            params.add(n.name)
    stored = {n.id for n in ast.walk(target) if isinstance(n, ast.Name) and isinstance(n.ctx, (ast.Store, ast.Del))}
    # keyword arguments and attribute names are not Name nodes, so renaming Name nodes cannot touch them
    ren = {n: n + "_r" for n in stored - params if not n.startswith("__")}
    if not ren:
        return None
    for n in ast.walk(target):
        if isinstance(n, ast.Name) and n.id in ren:
            n.id = ren[n.id]
    return ast.unparse(tree) + "\n"


def invert_ifs(src: str, qual: str) -> Optional[str]:
    """Behaviour-preserving refactor: every `if c: A else: B` (B not an elif chain) inside function `qual` becomes
    `if not c: B else: A`; the module is re-emitted with ast.unparse."""
    import ast
    tree = ast.parse(src)
    parts = qual.split(".")
    scope = tree
    target = None
    for i, pname in enumerate(parts):
        found = None
        for n in ast.walk(scope) if i == 0 else ast.iter_child_nodes(scope):
            if isinstance(n, (ast.FunctionDef, ast.ClassDef)) and n.name == pname:
                found = n
                break
        if found is None:
            return None
        scope = found
        target = found
    if not isinstance(target, ast.FunctionDef):
        return None
    changed = 0
    for n in ast.walk(target):
        if isinstance(n, ast.If) and n.orelse and not (len(n.orelse) == 1 and isinstance(n.orelse[0], ast.If)):
            par_is_elif = False
            n.test = ast.UnaryOp(op=ast.Not(), operand=n.test)
            n.body, n.orelse = n.orelse, n.body
            changed += 1
    if not changed:
        return None
    ast.fix_missing_locations(tree)
    return ast.unparse(tree) + "\n"


def return_via_temp(src: str, qual: str) -> Optional[str]:
    """Behaviour-preserving refactor: every `return EXPR` (EXPR not a bare name / constant) of function `qual` becomes
    `_ret = EXPR; return _ret`."""
    import ast
    tree = ast.parse(src)
    parts = qual.split(".")
    scope = tree
    target = None
    for i, pname in enumerate(parts):
        found = None
        for n in ast.walk(scope) if i == 0 else ast.iter_child_nodes(scope):
            if isinstance(n, (ast.FunctionDef, ast.ClassDef)) and n.name == pname:
                found = n
                break
        if found is None:
            return None
        scope = found
        target = found
    if not isinstance(target, ast.FunctionDef):
        return None
    if any(isinstance(n, (ast.Yield, ast.YieldFrom)) for n in ast.walk(target)):
        return None
    changed = [0]

    def rewrite(stmts):
        out = []
        for st in stmts:
            for field in ("body", "orelse", "finalbody"):
                if hasattr(st, field) and isinstance(getattr(st, field), list) and not isinstance(st, (ast.FunctionDef, ast.ClassDef, ast.AsyncFunctionDef)):
                    setattr(st, field, rewrite(getattr(st, field)))
            if hasattr(st, "handlers"):
                for h in st.handlers:
                    h.body = rewrite(h.body)
            if isinstance(st, ast.Return) and st.value is not None and not isinstance(st.value, (ast.Name, ast.Constant)):
                out.append(ast.Assign(targets=[ast.Name(id="_ret", ctx=ast.Store())], value=st.value))
                out.append(ast.Return(value=ast.Name(id="_ret", ctx=ast.Load())))
                changed[0] += 1
            else:
                out.append(st)
        return out

    target.body = rewrite(target.body)
    if not changed[0]:
        return None
    ast.fix_missing_locations(tree)
    return ast.unparse(tree) + "\n"


def else_after_return(src: str, qual: str) -> Optional[str]:
    """Behaviour-preserving refactor: `if c: ...; return X` followed by more statements becomes `if c: ...; return X
    else: <those statements>` (applied to every block of function `qual`)."""
    import ast
    tree = ast.parse(src)
    parts = qual.split(".")
    scope = tree
    target = None
    for i, pname in enumerate(parts):
        found = None
        for n in ast.walk(scope) if i == 0 else ast.iter_child_nodes(scope):
            if isinstance(n, (ast.FunctionDef, ast.ClassDef)) and n.name == pname:
                found = n
                break
        if found is None:
            return None
        scope = found
        target = found
    if not isinstance(target, ast.FunctionDef):
        return None
    changed = [0]

    def rewrite(stmts):
        for st in stmts:
            for field in ("body", "orelse", "finalbody"):
                v = getattr(st, field, None)
                if isinstance(v, list) and v and isinstance(v[0], ast.stmt) and not isinstance(st, (ast.FunctionDef, ast.ClassDef, ast.AsyncFunctionDef)):
                    setattr(st, field, rewrite(v))
            for h in getattr(st, "handlers", []) or []:
                h.body = rewrite(h.body)
        for i, st in enumerate(stmts):
            if isinstance(st, ast.If) and not st.orelse and st.body and isinstance(st.body[-1], (ast.Return, ast.Raise)) and i + 1 < len(stmts):
                st.orelse = rewrite(stmts[i + 1:])
                changed[0] += 1
                return stmts[:i + 1]
        return stmts

    target.body = rewrite(target.body)
    if not changed[0]:
        return None
    ast.fix_missing_locations(tree)
    return ast.unparse(tree) + "\n"


def _apply(variant: dict, root: str) -> Optional[str]:
    """Apply the edits to the copy at root; returns a reason string when the variant must be skipped."""
    if variant.get("patch"):
        r = subprocess.run(["patch", "-p1", "-s", "--no-backup-if-mismatch", "-d", root, "-i", variant["patch"]],
                           capture_output=True, text=True)
        if r.returncode != 0:
            return "patch does not apply: " + (r.stdout + r.stderr).strip().splitlines()[0][:120]
        return None
    if variant.get("transform") and variant["transform"][0] in ("rename_all_locals", "invert_all_ifs", "all_returns_via_temp", "all_else_after_return"):
        # behaviour-preserving: the transform is applied to EVERY top-level function and method of the package
        import ast as _ast
        n_funcs = 0
        rename_locals_ = {"rename_all_locals": rename_locals, "invert_all_ifs": invert_ifs, "all_returns_via_temp": return_via_temp,
                          "all_else_after_return": else_after_return}[variant["transform"][0]]
        for dirpath, _dirs, files in os.walk(os.path.join(root, "funsor")):
            for fn in files:
                if not fn.endswith(".py"):
                    continue
                path = os.path.join(dirpath, fn)
                with open(path, encoding="utf-8") as f:
                    src = f.read()
                tree = _ast.parse(src)
                quals = []
                for n in tree.body:
                    if isinstance(n, _ast.FunctionDef):
                        quals.append(n.name)
                    elif isinstance(n, _ast.ClassDef):
                        quals += [f"{n.name}.{m.name}" for m in n.body if isinstance(m, _ast.FunctionDef)]
                # functions that share a name (stacked registrations) are renamed only once per name: rename_locals takes the first
                done = set()
                for q in quals:
                    if q in done:
                        continue
                    done.add(q)
                    out = rename_locals_(src, q)
                    if out is not None:
                        try:
                            compile(out, path, "exec")
                        except SyntaxError:
                            continue
                        src = out
                        n_funcs += 1
                with open(path, "w", encoding="utf-8") as f:
                    f.write(src)
        return None if n_funcs else "no function renamed"
    if variant.get("transform") and variant["transform"][0] == "unparse_package":
        # behaviour-preserving: every module of the package is re-emitted by ast.unparse (comments, layout, line numbers,
        # parenthesisation and string quoting all change; the AST does not)
        import ast as _ast
        for dirpath, _dirs, files in os.walk(os.path.join(root, "funsor")):
            for fn in files:
                if fn.endswith(".py"):
                    path = os.path.join(dirpath, fn)
                    with open(path, encoding="utf-8") as f:
                        src = f.read()
                    out = _ast.unparse(_ast.parse(src)) + "\n"
                    compile(out, path, "exec")
                    with open(path, "w", encoding="utf-8") as f:
                        f.write(out)
        return None
    if variant.get("transform"):
        kind, rel, qual = variant["transform"]
        path = os.path.join(root, rel)
        if not os.path.exists(path):
            return f"file {rel} absent"
        with open(path, encoding="utf-8") as f:
            src = f.read()
        out = {"rename_locals": rename_locals, "invert_ifs": invert_ifs, "return_via_temp": return_via_temp,
               "else_after_return": else_after_return}[kind](src, qual)
        if out is None:
            return f"N/A: nothing for {kind} to rewrite in {qual} ({rel}), or the function is absent"
        compile(out, path, "exec")
        with open(path, "w", encoding="utf-8") as f:
            f.write(out)
        return None
    for rel, old, new in variant["edits"]:
        path = os.path.join(root, rel)
        if not os.path.exists(path):
            return f"file {rel} absent"
        with open(path, encoding="utf-8") as f:
            src = f.read()
        if old == "<<EOF>>":
            src = src + new
            compile(src, path, "exec")
            with open(path, "w", encoding="utf-8") as f:
                f.write(src)
            continue
        n = src.count(old)
        want = variant.get("count", 1)
        if n != want:
            return f"anchor text occurs {n} time(s) in {rel}, expected {want}"
        if variant.get("nth") is not None:
            parts = src.split(old)
            k = variant["nth"]
            src = old.join(parts[:k + 1]) + new + old.join(parts[k + 1:])
        else:
            src = src.replace(old, new)
        try:
            compile(src, path, "exec")
        except SyntaxError as e:
            return f"VARIANT-BROKEN: edited {rel} does not compile: {e}"
        with open(path, "w", encoding="utf-8") as f:
            f.write(src)
    return None


def _run_variant(job) -> dict:
    variant, base, tmp = job
    from .__main__ import run_check
    from .model import AnalysisError
    vid = variant["id"].replace("/", "_").replace("@", "_")
    root = os.path.join(tmp, "v_" + vid)
    res = {"id": variant["id"], "prop": variant["prop"], "kind": variant["kind"], "status": "?", "detail": ""}
    try:
        os.makedirs(root)
        shutil.copytree(os.path.join(base, "funsor"), os.path.join(root, "funsor"))
        skip = _apply(variant, root)
        if skip:
            res["status"] = "broken" if skip.startswith("VARIANT-BROKEN") else "n/a" if skip.startswith("N/A") else "skipped"
            res["detail"] = skip
            return res
        ev = os.path.join(root, "ev")
        try:
            rc = run_check(variant["prop"], "quick", root, evidence_dir=ev, quiet=True)
        except AnalysisError as e:
            rc = 2
            res["detail"] = f"ANALYSIS-ERROR {e}"
        viols = []
        rp = os.path.join(ev, "replay", f"{variant['prop']}.json")
        if rc == 1 and os.path.exists(rp):
            with open(rp) as f:
                viols = json.load(f)["violations"]
        res["rc"] = rc
        res["violations"] = [f"{v['rule']} {v['construct']}" for v in viols][:6]
        if variant["kind"] == "fire":
            if rc != 1:
                res["status"] = "MISSED"
                res["detail"] = res["detail"] or f"check exited {rc} without a violation"
            else:
                want_rule, want_in = variant.get("expect_rule"), variant.get("expect_in")
                hit = [v for v in viols
                       if (not want_rule or v["rule"] == want_rule)
                       and (not want_in or want_in in v["construct"] or want_in in v.get("detail", "") or want_in in v.get("loc", ""))]
                if hit:
                    res["status"] = "fired"
                    res["detail"] = f"{hit[0]['rule']} {hit[0]['loc']} {hit[0]['construct']}"
                else:
                    res["status"] = "WRONG-REPORT"
                    res["detail"] = f"expected rule={want_rule} construct~{want_in!r}; got {res['violations']}"
        else:
            if rc == 0:
                res["status"] = "silent"
            elif rc == 1:
                res["status"] = "FALSE-ALARM"
                res["detail"] = "; ".join(res["violations"])
            else:
                res["status"] = "ANALYSIS-ERROR"
    except Exception as e:  # a crash inside a rule on a variant is a checker defect as well
        import traceback
        res["status"] = "CRASH"
        res["detail"] = f"{type(e).__name__}: {e} | " + traceback.format_exc().strip().splitlines()[-3][:200]
    finally:
        shutil.rmtree(root, ignore_errors=True)
    return res


def run(props: Optional[List[str]], repo: str, jobs: int = 16, verbose: bool = False, evidence_prop: Optional[str] = None,
        evidence_dir: Optional[str] = None, only: Optional[str] = None) -> int:
    t0 = time.time()
    variants = load_variants()
    if props:
        variants = [v for v in variants if v["prop"] in props]
    if only:
        variants = [v for v in variants if only in v["id"]]
    tmp = tempfile.mkdtemp(prefix="funsorlint_selftest.")
    try:
        base = os.path.join(tmp, "base")
        os.makedirs(base)
        shutil.copytree(os.path.join(repo, "funsor"), os.path.join(base, "funsor"),
                        ignore=shutil.ignore_patterns("__pycache__", "*.pyc"))
        work = [(v, base, tmp) for v in variants]
        if jobs > 1 and len(work) > 1:
            ctx = multiprocessing.get_context("fork")
            with ctx.Pool(min(jobs, len(work))) as pool:
                results = pool.map(_run_variant, work, chunksize=1)
        else:
            results = [_run_variant(w) for w in work]
    finally:
        shutil.rmtree(tmp, ignore_errors=True)
    bad = [r for r in results if r["status"] in ("MISSED", "WRONG-REPORT", "FALSE-ALARM", "CRASH", "ANALYSIS-ERROR", "broken")]
    counts: Dict[str, int] = {}
    for r in results:
        counts[r["status"]] = counts.get(r["status"], 0) + 1
    for r in results:
        if verbose or r in bad:
            print(f"  selftest {r['status']:14s} {r['prop']} {r['id']}: {r['detail']}")
    summary = {"variants": len(results), "counts": counts, "wall_s": round(time.time() - t0, 2),
               "fired": [{"id": r["id"], "report": r["detail"]} for r in results if r["status"] == "fired"],
               "silent": [r["id"] for r in results if r["status"] == "silent"],
               "skipped": [{"id": r["id"], "why": r["detail"]} for r in results if r["status"] == "skipped"],
               "failed": [{"id": r["id"], "status": r["status"], "detail": r["detail"]} for r in bad]}
    print(f"selftest {','.join(props) if props else 'all'}: {len(results)} variant(s) " +
          ", ".join(f"{k}={v}" for k, v in sorted(counts.items())) + f" in {summary['wall_s']} s")
    if evidence_prop:
        ev_dir = evidence_dir or os.path.join(VERIF, "evidence")
        p = os.path.join(ev_dir, f"{evidence_prop}.json")
        if os.path.exists(p):
            with open(p) as f:
                ev = json.load(f)
            ev["coverage"]["selftest"] = summary
            with open(p, "w") as f:
                json.dump(ev, f, indent=1, default=str)
    if bad:
        print(f"SELFTEST-FAIL {len(bad)} variant(s) did not behave as required (checker defect, not a property violation)")
        return 2
    return 0
