"""Variant corpus for `python -m funsorlint selftest` (see selftest.py).

Each variant: id, prop, kind ('fire' default | 'silent'), file/old/new (exact source text, must occur exactly once unless
`count`/`nth` say otherwise; old == '<<EOF>>' appends), expect_rule and expect_in (substring of the reported construct,
detail or location) for must-fire variants.  Edits are chosen to keep the package importable and, for must-fire variants,
to break exactly one structural fact; silent variants are behaviour-preserving refactors.
"""

V = VARIANTS = []


def fire(id, prop, file, old, new, rule=None, within=None, **kw):
    V.append(dict(id=id, prop=prop, kind="fire", file=file, old=old, new=new, expect_rule=rule, expect_in=within, **kw))


def silent(id, prop, file, old, new, **kw):
    V.append(dict(id=id, prop=prop, kind="silent", file=file, old=old, new=new, **kw))


INTERP = "funsor/interpretations.py"
INTERPRETER = "funsor/interpreter.py"
TERMS = "funsor/terms.py"
ADJOINT = "funsor/adjoint.py"

# ----------------------------------------------------------------------------------------------------------------- C17
fire("c17-exit-no-pop", "C17", INTERP,
     "    def __exit__(self, *args):\n        pop_interpretation()\n",
     "    def __exit__(self, *args):\n        pass\n", "R17.3", "__exit__")
fire("c17-exit-pop-only-on-normal-exit", "C17", INTERP,
     "    def __exit__(self, *args):\n        pop_interpretation()\n",
     "    def __exit__(self, *args):\n        if args[0] is None:\n            pop_interpretation()\n", "R17.3", "__exit__")
silent("c17-s-exit-returns-true", "C17", INTERP,  # swallows exceptions, but the stack still unwinds: not a C17 violation
       "    def __exit__(self, *args):\n        pop_interpretation()\n",
       "    def __exit__(self, *args):\n        pop_interpretation()\n        return True\n")
fire("c17-exit-swallows-in-try", "C17", INTERP,
     "    def __exit__(self, *args):\n        pop_interpretation()\n",
     "    def __exit__(self, *args):\n        try:\n            self.cleanup()\n            pop_interpretation()\n        except Exception:\n            pass\n",
     "R17.3", "__exit__")
fire("c17-enter-double-push", "C17", INTERP,
     "        push_interpretation(new)\n        return self\n",
     "        push_interpretation(new)\n        push_interpretation(new)\n        return self\n", "R17.3", "__enter__")
fire("c17-enter-push-only-if-partial", "C17", INTERP,
     "            new = PrioritizedInterpretation(new, get_interpretation())\n        push_interpretation(new)\n",
     "            new = PrioritizedInterpretation(new, get_interpretation())\n            push_interpretation(new)\n",
     "R17.3", "__enter__")
fire("c17-priority-swapped", "C17", INTERP,
     "new = PrioritizedInterpretation(new, get_interpretation())",
     "new = PrioritizedInterpretation(get_interpretation(), new)", "R17.5")
fire("c17-prioritized-reversed-iteration", "C17", INTERP,
     "        for s in self._subinterpretations:\n            result = s.interpret(cls, *args)",
     "        for s in reversed(self._subinterpretations):\n            result = s.interpret(cls, *args)", "R17.5")
fire("c17-prioritized-flatten-reversed", "C17", INTERP,
     "            ss for s in subinterpretations for ss in s.subinterpretations\n",
     "            ss for s in reversed(subinterpretations) for ss in s.subinterpretations\n", "R17.5")
fire("c17-foreign-stack-write", "C17", TERMS, "<<EOF>>",
     "\n\ndef _reset_interpretation_stack():\n    del interpreter._STACK[2:]\n", "R17.1", "_reset_interpretation_stack")
fire("c17-foreign-stack-alias-append", "C17", "funsor/optimizer.py", "<<EOF>>",
     "\n\ndef _force(interp):\n    from funsor.interpreter import _STACK as stack\n    stack.append(interp)\n", "R17.1")
fire("c17-pop-with-index", "C17", INTERPRETER, "    return _STACK.pop()\n", "    return _STACK.pop(0)\n", "R17.1")
fire("c17-push-inserts-below-top", "C17", INTERPRETER, "    _STACK.append(new)\n", "    _STACK.insert(-1, new)\n", "R17.1")
fire("c17-default-is-lazy", "C17", INTERP,
     "push_interpretation(eager)  # Use eager interpretation by default.",
     "push_interpretation(lazy)  # Use eager interpretation by default.", "R17.2")
fire("c17-default-popped-at-import", "C17", INTERP,
     "push_interpretation(eager)  # Use eager interpretation by default.",
     "push_interpretation(eager)  # Use eager interpretation by default.\npop_interpretation()", "R17.2")
fire("c17-adjoint-enter-no-super", "C17", ADJOINT,
     "        self._old_interpretation = interpreter.get_interpretation()\n        return super().__enter__()\n",
     "        self._old_interpretation = interpreter.get_interpretation()\n        return self\n", "R17.4", "AdjointTape")
fire("c17-adjoint-enter-work-after-super", "C17", ADJOINT,
     "        self.tape = []\n        self._old_interpretation = interpreter.get_interpretation()\n        return super().__enter__()\n",
     "        result = super().__enter__()\n        self.tape = []\n        self._old_interpretation = interpreter.get_interpretation()\n        return result\n",
     None, "AdjointTape")
fire("c17-subclass-exit-skips-super-on-error", "C17", INTERP,
     "    @property\n    def is_total(self):\n        return self.base_interpretation.is_total\n\n    def interpret(self, cls, *args):\n        key = (cls,)",
     "    @property\n    def is_total(self):\n        return self.base_interpretation.is_total\n\n    def __exit__(self, exc_type, exc, tb):\n        if exc_type is None:\n            return super().__exit__(exc_type, exc, tb)\n\n    def interpret(self, cls, *args):\n        key = (cls,)",
     "R17.4", "Memoize")
fire("c17-explicit-enter-call", "C17", "funsor/optimizer.py",
     "    with unfold:\n        expr = interpreter.reinterpret(x)\n",
     "    unfold.__enter__()\n    expr = interpreter.reinterpret(x)\n    unfold.__exit__(None, None, None)\n", "R17.6")
fire("c17-generator-yields-inside-with", "C17", "funsor/optimizer.py", "<<EOF>>",
     "\n\ndef lazily_optimized(xs):\n    with optimize:\n        for x in xs:\n            yield interpreter.reinterpret(x)\n", "R17.7", "lazily_optimized")
fire("c17-memoize-yield-outside-with", "C17", INTERP,
     "    with Memoize(base_interpretation, cache) as interp:\n        yield interp.cache\n",
     "    interp = Memoize(base_interpretation, cache)\n    interp.__enter__()\n    yield interp.cache\n    interp.__exit__(None, None, None)\n",
     None, "memoize")
silent("c17-s-exit-named-args", "C17", INTERP,
       "    def __exit__(self, *args):\n        pop_interpretation()\n",
       "    def __exit__(self, exc_type, exc_value, traceback):\n        pop_interpretation()\n        return None\n")
silent("c17-s-enter-if-else", "C17", INTERP,
       "        new = self\n        if not self.is_total:\n            new = PrioritizedInterpretation(new, get_interpretation())\n        push_interpretation(new)\n",
       "        if self.is_total:\n            new = self\n        else:\n            new = PrioritizedInterpretation(self, get_interpretation())\n        push_interpretation(new)\n")
silent("c17-s-new-with-site", "C17", "funsor/optimizer.py", "<<EOF>>",
       "\n\ndef optimized_twice(x):\n    with optimize:\n        with unfold:\n            return interpreter.reinterpret(x)\n")
silent("c17-s-subclass-exit-super-in-finally", "C17", INTERP,
       "    @property\n    def is_total(self):\n        return self.base_interpretation.is_total\n\n    def interpret(self, cls, *args):\n        key = (cls,)",
       "    @property\n    def is_total(self):\n        return self.base_interpretation.is_total\n\n    def __exit__(self, *args):\n        try:\n            self.cache_hits = 0\n        finally:\n            super().__exit__(*args)\n\n    def interpret(self, cls, *args):\n        key = (cls,)")
silent("c17-s-stack-read-elsewhere", "C17", TERMS, "<<EOF>>",
       "\n\ndef _interpretation_depth():\n    return len(interpreter._STACK)\n")
silent("c17-s-prioritized-next-generator", "C17", INTERP,
       "        for s in self._subinterpretations:\n            result = s.interpret(cls, *args)\n            if result is not None:\n                return result\n",
       "        for sub in self._subinterpretations:\n            out = sub.interpret(cls, *args)\n            if out is not None:\n                return out\n        return None\n")

# ----------------------------------------------------------------------------------------------------------------- C20
TENSOR = "funsor/tensor.py"
ARRAY = "funsor/ops/array.py"
fire("c20-binary-init-dropped-copy", "C20", TERMS,
     "        inputs = lhs.inputs.copy()\n        inputs.update(rhs.inputs)\n        output = find_domain(op, lhs.output, rhs.output)",
     "        inputs = lhs.inputs\n        inputs.update(rhs.inputs)\n        output = find_domain(op, lhs.output, rhs.output)",
     "R20.2", "Binary.__init__")
fire("c20-getitem-dropped-copy", "C20", TENSOR,
     "    inputs = lhs.inputs.copy()\n    inputs[rhs.name] = rhs.output\n",
     "    inputs = lhs.inputs\n    inputs[rhs.name] = rhs.output\n", "R20.2")
fire("c20-lambda-dropped-copy", "C20", TENSOR,
     "    inputs = expr.inputs.copy()\n    if var.name in inputs:\n        inputs.pop(var.name)",
     "    inputs = expr.inputs\n    if var.name in inputs:\n        inputs.pop(var.name)", "R20.2")
fire("c20-scatter-writes-destination", "C20", ARRAY,
     "def _scatter(destin, indices, source):\n    result = destin.copy()\n",
     "def _scatter(destin, indices, source):\n    result = destin\n", "R20.2", "_scatter")
fire("c20-scatter-add-at-on-destination", "C20", ARRAY,
     "def _scatter_add(destin, indices, source):\n    result = destin.copy()\n",
     "def _scatter_add(destin, indices, source):\n    result = destin\n", None, "_scatter_add")
fire("c20-method-writes-self-data", "C20", TENSOR, "<<EOF>>",
     "\n\ndef _zero_out(x):\n    assert isinstance(x, Tensor)\n    x.data[...] = 0\n    return x\n", "R20.2", "_zero_out")
fire("c20-augassign-on-data", "C20", TENSOR, "<<EOF>>",
     "\n\ndef _shift(x, c):\n    assert isinstance(x, Tensor)\n    data = x.data\n    data += c\n    return Tensor(data, x.inputs, x.dtype)\n",
     "R20.3", "_shift")
fire("c20-out-kw-on-operand", "C20", ARRAY,
     "def _scatter(destin, indices, source):\n    result = destin.copy()\n",
     "def _scatter(destin, indices, source):\n    np.negative(source, out=source)\n    result = destin.copy()\n", None, "out=source")
fire("c20-field-assigned-after-construction", "C20", TERMS, "<<EOF>>",
     "\n\ndef _retarget(x, output):\n    assert isinstance(x, Funsor)\n    x.output = output\n    return x\n", "R20.1", "_retarget")
fire("c20-mutate-after-freeze", "C20", TERMS,
     "        super(Binary, self).__init__(inputs, output)\n        self.op = op\n        self.lhs = lhs\n",
     "        super(Binary, self).__init__(inputs, output)\n        inputs.pop(\"_tmp\", None)\n        self.op = op\n        self.lhs = lhs\n",
     None, "inputs.pop")
fire("c20-helper-mutates-borrowed-arg", "C20", TERMS, "<<EOF>>",
     "\n\ndef _merge_into(inputs, other):\n    inputs.update(other)\n    return inputs\n\n\ndef _joint_inputs(x, y):\n    return _merge_into(x.inputs, y.inputs)\n",
     "R20.6", "_joint_inputs")
silent("c20-s-copy-via-ordereddict", "C20", TERMS,
       "        inputs = lhs.inputs.copy()\n        inputs.update(rhs.inputs)\n        output = find_domain(op, lhs.output, rhs.output)",
       "        inputs = OrderedDict(lhs.inputs)\n        inputs.update(rhs.inputs)\n        output = find_domain(op, lhs.output, rhs.output)")
silent("c20-s-helper-on-fresh", "C20", TERMS, "<<EOF>>",
       "\n\ndef _merge_into(inputs, other):\n    inputs.update(other)\n    return inputs\n\n\ndef _joint_inputs(x, y):\n    return _merge_into(x.inputs.copy(), y.inputs)\n")
silent("c20-s-scatter-np-array-copy", "C20", ARRAY,
       "def _scatter(destin, indices, source):\n    result = destin.copy()\n",
       "def _scatter(destin, indices, source):\n    result = np.array(destin)\n")
silent("c20-s-local-accumulator", "C20", TENSOR, "<<EOF>>",
       "\n\ndef _sizes(x):\n    out = []\n    total = 0\n    for k, d in x.inputs.items():\n        out.append(d.size)\n        total += d.size\n    return out, total\n")
silent("c20-s-augassign-on-fresh-array", "C20", TENSOR, "<<EOF>>",
       "\n\ndef _shifted(x, c):\n    assert isinstance(x, Tensor)\n    data = x.data + 0\n    data += c\n    return Tensor(data, tuple(x.inputs.items()), x.dtype)\n")

# ----------------------------------------------------------------------------------------------------------------- C07
OP = "funsor/ops/op.py"
DOMAINS = "funsor/domains.py"
TYPING = "funsor/typing.py"
fire("c07-cons-cache-strong-dict", "C07", TERMS,
     "            cls._cons_cache = WeakValueDictionary()", "            cls._cons_cache = {}", "R07.1", "_cons_cache")
fire("c07-op-cache-strong-dict", "C07", OP,
     "        cls._instance_cache = weakref.WeakValueDictionary()", "        cls._instance_cache = dict()", "R07.1", "_instance_cache")
fire("c07-domain-cache-weakkey", "C07", DOMAINS,
     "class ProductDomain(Domain):\n    _type_cache = WeakValueDictionary()",
     "class ProductDomain(Domain):\n    _type_cache = dict()", "R07.1")
fire("c07-insert-under-truncated-key", "C07", TERMS,
     "    cls._cons_cache[cache_key] = result\n    return result",
     "    cls._cons_cache[cache_key[:1]] = result\n    return result", "R07.2", "reflect")
fire("c07-no-insert", "C07", TERMS,
     "    cls._cons_cache[cache_key] = result\n    return result", "    return result", "R07.2", "reflect")
fire("c07-no-lookup", "C07", TERMS,
     "    if cache_key in cls._cons_cache:\n        return cls._cons_cache[cache_key]\n", "", "R07.2", "reflect")
fire("c07-hit-returns-other-key", "C07", OP,
     "            op = cls._instance_cache[key] = super().__call__(*args, **kwargs)",
     "            op = cls._instance_cache[args] = super().__call__(*args, **kwargs)", "R07.2", "OpMeta.__call__")
fire("c07-key-skips-first-arg", "C07", INTERP,
     "        return tuple(id(arg) if not isinstance(arg, Hashable) else arg for arg in args)",
     "        return tuple(id(arg) if not isinstance(arg, Hashable) else arg for arg in args[1:])", "R07.3", "make_hash_key")
fire("c07-key-filters-unhashable", "C07", INTERP,
     "        return tuple(id(arg) if not isinstance(arg, Hashable) else arg for arg in args)",
     "        return tuple(arg for arg in args if isinstance(arg, Hashable))", "R07.3", "make_hash_key")
fire("c07-key-before-vararg-normalisation", "C07", TERMS,
     "    cache_key = reflect.make_hash_key(cls, *args)\n    if cache_key in cls._cons_cache:",
     "    cache_key = reflect.make_hash_key(cls, *args[:2])\n    if cache_key in cls._cons_cache:", "R07.3", "reflect")
fire("c07-op-key-ignores-kwargs", "C07", OP,
     "        return args, tuple(kwargs.items())", "        return args", "R07.3", "hash_args_kwargs")
fire("c07-ast-values-not-kept", "C07", TERMS,
     "    result._ast_values = args\n\n    if instrument.PROFILE:", "    if instrument.PROFILE:", "R07.4", "reflect")
fire("c07-second-instantiation-site", "C07", TERMS, "<<EOF>>",
     "\n\ndef _clone(x):\n    assert isinstance(x, Funsor)\n    new = object.__new__(type(x))\n    new.__dict__.update(x.__dict__)\n    return new\n", "R07.5", "_clone")
fire("c07-hash-by-value", "C07", TERMS,
     "    def __hash__(self):\n        return id(self)\n", "    def __hash__(self):\n        return hash(self._ast_values)\n", "R07.6", "__hash__")
fire("c07-copy-makes-new-object", "C07", TERMS,
     "    def __copy__(self):\n        return self\n",
     "    def __copy__(self):\n        return reflect.interpret(type(self), *self._ast_values)\n", "R07.6", "__copy__")
fire("c07-reduce-bypasses-constructor", "C07", TERMS,
     "        return type(self).__origin__, self._ast_values\n",
     "        return object.__new__, (type(self),), self.__dict__\n", "R07.6", "__reduce__")
fire("c07-unmangled-result-cached", "C07", TERMS,
     "    result = _alpha_mangle(result)\n\n    cls._cons_cache[cache_key] = result\n    return result",
     "    cls._cons_cache[cache_key] = result\n    result = _alpha_mangle(result)\n    return result", None, "reflect")
silent("c07-s-lookup-via-get", "C07", TERMS,
       "    if cache_key in cls._cons_cache:\n        return cls._cons_cache[cache_key]\n",
       "    cached = cls._cons_cache.get(cache_key)\n    if cached is not None:\n        return cached\n")
silent("c07-s-lookup-via-try", "C07", TERMS,
       "    if cache_key in cls._cons_cache:\n        return cls._cons_cache[cache_key]\n",
       "    try:\n        return cls._cons_cache[cache_key]\n    except KeyError:\n        pass\n")
silent("c07-s-renamed-key-local", "C07", TERMS,
       "    cache_key = reflect.make_hash_key(cls, *args)\n    if cache_key in cls._cons_cache:\n        return cls._cons_cache[cache_key]\n",
       "    k = reflect.make_hash_key(cls, *args)\n    cache_key = k\n    if cache_key in cls._cons_cache:\n        return cls._cons_cache[cache_key]\n")
silent("c07-s-unrelated-strong-cache", "C07", TERMS, "<<EOF>>",
       "\n\n_NAME_CACHE = {}\n\n\ndef _intern_name(name):\n    return _NAME_CACHE.setdefault(name, name)\n")
silent("c07-s-key-loop-form", "C07", INTERP,
       "        return tuple(id(arg) if not isinstance(arg, Hashable) else arg for arg in args)",
       "        return tuple([arg if isinstance(arg, Hashable) else id(arg) for arg in args])")

# ----------------------------------------------------------------------------------------------------------------- C05
fire("c05-mangle-dropped", "C05", TERMS,
     "    result = _alpha_mangle(result)\n\n    cls._cons_cache[cache_key] = result", "    cls._cons_cache[cache_key] = result", "R05.2", "reflect")
fire("c05-mangle-only-first-bound", "C05", TERMS,
     "        for name in expr.bound\n        if \"__BOUND\" not in name\n",
     "        for name in list(expr.bound)[:1]\n        if \"__BOUND\" not in name\n", "R05.2", "_alpha_mangle")
fire("c05-mangle-without-gensym", "C05", TERMS,
     "        name: interpreter.gensym(name + \"__BOUND\")\n", "        name: name + \"__BOUND\"\n", "R05.2", "_alpha_mangle")
fire("c05-gensym-counter-reset", "C05", INTERPRETER, "<<EOF>>",
     "\n\ndef reset_gensym():\n    global _GENSYM_COUNTER\n    _GENSYM_COUNTER = 0\n", "R05.4", "reset_gensym")
fire("c05-marker-mismatch", "C05", ADJOINT,
     "                    (name, to_funsor(name.split(\"__BOUND\")[0], domain))",
     "                    (name, to_funsor(name.split(\"__BND\")[0], domain))", "R05.5", count=2, nth=0)
fire("c05-subs-filter-dropped", "C05", TERMS,
     "            fresh_subs = tuple((k, v) for k, v in self.subs if k in fresh)",
     "            fresh_subs = tuple((k, v) for k, v in self.subs)", "R05.3", "SubstituteInterpretation")
fire("c05-stop-ignores-inputs", "C05", TERMS,
     "        if isinstance(x, Funsor) and support.isdisjoint(x.inputs):\n            return True\n        return False",
     "        return False", "R05.3", "substitute")
fire("c05-cat-part-name-not-renamed", "C05", TERMS,
     "        return self.name, parts, part_name\n", "        return self.name, parts, self.part_name\n", "R05.1", "Cat")
fire("c05-reduce-vars-not-renamed", "C05", TERMS,
     "        op, arg, reduced_vars = super()._alpha_convert(alpha_subs)\n        reduced_vars = frozenset(alpha_subs.get(var.name, var) for var in reduced_vars)\n        return op, arg, reduced_vars",
     "        op, arg, reduced_vars = super()._alpha_convert(alpha_subs)\n        return op, arg, self.reduced_vars", "R05.1", "Reduce")
fire("c05-subs-keys-not-renamed", "C05", TERMS,
     "        subs = tuple((str(alpha_subs.get(k, k)), v) for k, v in subs)\n        return arg, subs",
     "        return arg, subs", "R05.1", "Subs")
silent("c05-s-mangle-loop-form", "C05", TERMS,
       "    alpha_subs = {\n        name: interpreter.gensym(name + \"__BOUND\")\n        for name in expr.bound\n        if \"__BOUND\" not in name\n    }\n",
       "    alpha_subs = {}\n    for name in expr.bound:\n        if \"__BOUND\" in name:\n            continue\n        alpha_subs[name] = interpreter.gensym(name + \"__BOUND\")\n")
silent("c05-s-cat-rename-local", "C05", TERMS,
       "        return self.name, parts, part_name\n", "        new_part_name = part_name\n        return self.name, parts, new_part_name\n")
silent("c05-s-gensym-read-elsewhere", "C05", INTERPRETER, "<<EOF>>",
       "\n\ndef gensym_count():\n    return _GENSYM_COUNTER\n")

# ----------------------------------------------------------------------------------------------------------------- C03
fire("c03-memo-key-without-class", "C03", INTERP,
     "        key = (cls,) + self.make_hash_key(cls, *args)", "        key = self.make_hash_key(cls, *args)", "R03.1", "Memoize.interpret")
fire("c03-memo-key-drops-last-arg", "C03", INTERP,
     "        key = (cls,) + self.make_hash_key(cls, *args)", "        key = (cls,) + self.make_hash_key(cls, *args[:-1])", "R03.1", "Memoize.interpret")
fire("c03-memo-insert-under-other-key", "C03", INTERP,
     "            self.cache[key] = value = self.base_interpretation.interpret(cls, *args)",
     "            self.cache[key[1:]] = value = self.base_interpretation.interpret(cls, *args)", None, "Memoize.interpret")
fire("c03-memoize-wraps-eager-not-current", "C03", INTERP,
     "    base_interpretation = get_interpretation()\n    with Memoize(base_interpretation, cache) as interp:",
     "    base_interpretation = eager\n    with Memoize(base_interpretation, cache) as interp:", "R03.3", "memoize")
fire("c03-reinterpret-reversed-children", "C03", INTERPRETER,
     "        return _STACK[-1].interpret(type(x), *map(recursion_reinterpret, children(x)))",
     "        return _STACK[-1].interpret(type(x), *map(recursion_reinterpret, reversed(children(x))))", "R03.4")
silent("c03-s-key-order", "C03", INTERP,
       "        key = (cls,) + self.make_hash_key(cls, *args)", "        key = self.make_hash_key(cls, *args) + (cls,)")
silent("c03-s-explicit-miss-branch", "C03", INTERP,
       "        value = self.cache.get(key)\n        if value is None:\n            self.cache[key] = value = self.base_interpretation.interpret(cls, *args)\n        return value",
       "        value = self.cache.get(key)\n        if value is not None:\n            return value\n        value = self.base_interpretation.interpret(cls, *args)\n        self.cache[key] = value\n        return value")

# ----------------------------------------------------------------------------------------------------------------- C15
BUILTIN = "funsor/ops/builtin.py"
CNF = "funsor/cnf.py"
OPTIMIZER = "funsor/optimizer.py"
fire("c15-unit-and-false", "C15", BUILTIN, "UNITS[and_] = True", "UNITS[and_] = False", "R15.1", "and_")
fire("c15-unit-max-plus-inf", "C15", BUILTIN, "UNITS[max] = -math.inf", "UNITS[max] = math.inf", "R15.1", "max")
fire("c15-unit-mul-zero", "C15", BUILTIN, "UNITS[mul] = 1.0", "UNITS[mul] = 0.0", "R15.1", "mul")
fire("c15-unit-logaddexp-zero", "C15", ARRAY, "UNITS[logaddexp] = -math.inf", "UNITS[logaddexp] = 0.0", "R15.1", "logaddexp")
fire("c15-distributive-reversed-pair", "C15", BUILTIN, "DISTRIBUTIVE_OPS.add((max, add))", "DISTRIBUTIVE_OPS.add((add, max))", "R15.2")
fire("c15-distributive-add-add", "C15", BUILTIN, "DISTRIBUTIVE_OPS.add((add, mul))", "DISTRIBUTIVE_OPS.add((add, mul))\nDISTRIBUTIVE_OPS.add((add, add))", "R15.2")
fire("c15-distributive-and-or-wrong-carrier", "C15", BUILTIN, "DISTRIBUTIVE_OPS.add((or_, and_))", "DISTRIBUTIVE_OPS.add((or_, xor))", "R15.2")
fire("c15-inverse-mul-is-sub", "C15", BUILTIN, "BINARY_INVERSES[mul] = truediv", "BINARY_INVERSES[mul] = sub", "R15.3", "mul")
fire("c15-safe-inverse-swapped", "C15", BUILTIN, "SAFE_BINARY_INVERSES[add] = safesub", "SAFE_BINARY_INVERSES[add] = safediv", "R15.3", "add")
fire("c15-unary-inverse-add-reciprocal", "C15", BUILTIN, "UNARY_INVERSES[add] = neg", "UNARY_INVERSES[add] = reciprocal", "R15.3", "add")
fire("c15-power-of-mul-is-mul", "C15", BUILTIN, "PRODUCT_TO_POWER[mul] = pow", "PRODUCT_TO_POWER[mul] = mul", "R15.3", "mul")
fire("c15-reduce-table-min-amax", "C15", TENSOR, "    ops.min: ops.amin,", "    ops.min: ops.amax,", "R15.4", "min")
fire("c15-reduce-table-or-all", "C15", TENSOR, "    ops.or_: ops.any,", "    ops.or_: ops.all,", "R15.4")
silent("c15-s-unit-int-spelling", "C15", BUILTIN, "UNITS[mul] = 1.0", "UNITS[mul] = 1")
silent("c15-s-unit-float-inf-spelling", "C15", BUILTIN, "UNITS[max] = -math.inf", "UNITS[max] = -float(\"inf\")")
silent("c15-s-table-order", "C15", BUILTIN, "UNITS[mul] = 1.0\nUNITS[add] = 0.0", "UNITS[add] = 0.0\nUNITS[mul] = 1.0")
silent("c15-s-extra-true-distributive-pair", "C15", BUILTIN, "DISTRIBUTIVE_OPS.add((or_, and_))", "DISTRIBUTIVE_OPS.add((or_, and_))\nDISTRIBUTIVE_OPS.add((and_, or_))")

# ----------------------------------------------------------------------------------------------------------------- C01
fire("c01-rsub-unswapped", "C01", TERMS,
     "    def __rsub__(self, other):\n        return Binary(ops.sub, to_funsor(other), self)",
     "    def __rsub__(self, other):\n        return Binary(ops.sub, self, to_funsor(other))", "R01.1", "__rsub__")
fire("c01-rpow-unswapped", "C01", TERMS,
     "    def __rpow__(self, other):\n        return Binary(ops.pow, to_funsor(other), self)",
     "    def __rpow__(self, other):\n        return Binary(ops.pow, self, to_funsor(other))", "R01.1", "__rpow__")
fire("c01-floordiv-builds-truediv", "C01", TERMS,
     "    def __floordiv__(self, other):\n        return Binary(ops.floordiv, self, to_funsor(other))",
     "    def __floordiv__(self, other):\n        return Binary(ops.truediv, self, to_funsor(other))", "R01.1", "__floordiv__")
fire("c01-lt-builds-le", "C01", TERMS,
     "    def __lt__(self, other):\n        return Binary(ops.lt, self, to_funsor(other))",
     "    def __lt__(self, other):\n        return Binary(ops.le, self, to_funsor(other))", "R01.1", "__lt__")
fire("c01-syntax-floordiv-row", "C01", "funsor/syntax.py", "    (\"//\", ops.floordiv, ast.FloorDiv),", "    (\"//\", ops.truediv, ast.FloorDiv),", "R01.3")
fire("c01-syntax-prefix-neg-row", "C01", "funsor/syntax.py", "    (\"-\", ops.neg, ast.USub),", "    (\"-\", ops.neg, ast.UAdd),", "R01.3")
fire("c01-missing-var-power-distributive-partner", "C01", TERMS,
     "        if op in ops.PRODUCT_TO_POWER:\n            arg = ops.PRODUCT_TO_POWER[op](arg, multiplicity)\n        elif isinstance(op, ops.LogaddexpOp):\n            arg = ops.add(arg, math.log(multiplicity))",
     "        if op in ops.PRODUCT_TO_POWER:\n            arg = ops.PRODUCT_TO_POWER[op](arg, multiplicity)\n        elif isinstance(op, ops.LogaddexpOp):\n            arg = ops.add(arg, multiplicity)",
     "R01.4", "_reduce_unrelated_vars")
fire("c01-missing-var-max-compensated", "C01", TERMS,
     "        elif op not in (ops.max, ops.min, ops.and_, ops.or_):  # not idempotent",
     "        elif op in (ops.max, ops.min):\n            arg = ops.mul(arg, multiplicity)\n        elif op not in (ops.and_, ops.or_):  # not idempotent",
     "R01.4", "_reduce_unrelated_vars")
fire("c01-missing-var-no-compensation-add", "C01", TERMS,
     "        if op in ops.PRODUCT_TO_POWER:\n            arg = ops.PRODUCT_TO_POWER[op](arg, multiplicity)\n        elif isinstance(op, ops.LogaddexpOp):",
     "        if op is ops.mul:\n            arg = ops.PRODUCT_TO_POWER[op](arg, multiplicity)\n        elif op is ops.add:\n            pass\n        elif isinstance(op, ops.LogaddexpOp):",
     "R01.4", "_reduce_unrelated_vars")
silent("c01-s-radd-swapped", "C01", TERMS,
       "    def __radd__(self, other):\n        return Binary(ops.add, self, to_funsor(other))",
       "    def __radd__(self, other):\n        return Binary(ops.add, to_funsor(other), self)")
silent("c01-s-missing-var-explicit-branches", "C01", TERMS,
       "        if op in ops.PRODUCT_TO_POWER:\n            arg = ops.PRODUCT_TO_POWER[op](arg, multiplicity)\n",
       "        if op is ops.add:\n            arg = ops.mul(arg, multiplicity)\n        elif op is ops.mul:\n            arg = ops.pow(arg, multiplicity)\n")

# ----------------------------------------------------------------------------------------------------------------- C02
fire("c02-unit-filter-uses-red-op", "C02", CNF,
     "            if not (isinstance(t, Number) and t.data == ops.UNITS[bin_op])",
     "            if not (isinstance(t, Number) and t.data == ops.UNITS[red_op])", "R02.1")
fire("c02-unit-filter-may-drop-everything", "C02", CNF,
     "        if not new_terms:  # everything was a unit\n            new_terms = (terms[0],)\n", "", "R02.1")
fire("c02-subtract-via-reciprocal", "C02", CNF,
     "def binary_subtract(op, lhs, rhs):\n    return lhs + -rhs", "def binary_subtract(op, lhs, rhs):\n    return lhs + Unary(ops.reciprocal, rhs)", "R02.2", "binary_subtract")
fire("c02-divide-via-neg", "C02", CNF,
     "    return lhs * Unary(ops.reciprocal, rhs)", "    return lhs * Unary(ops.neg, rhs)", "R02.2", "binary_divide")
fire("c02-involution-exp-exp", "C02", CNF,
     "@normalize.register(Unary, ops.ExpOp, Unary[ops.LogOp, Funsor])", "@normalize.register(Unary, ops.ExpOp, Unary[ops.ExpOp, Funsor])", "R02.2", "unary_log_exp")
fire("c02-unary-contract-neg-over-mul", "C02", CNF,
     "@normalize.register(Unary, ops.NegOp, Contraction[NullOp, ops.AddOp, frozenset, tuple])",
     "@normalize.register(Unary, ops.NegOp, Contraction[NullOp, ops.MulOp, frozenset, tuple])", "R02.2", "unary_contract")
fire("c02-unfold-distribute-guard-dropped", "C02", OPTIMIZER,
     "        if v.red_op is ops.null and (v.bin_op, bin_op) in DISTRIBUTIVE_OPS:", "        if v.red_op is ops.null:", "R02.3", "unfold_contraction_generic_tuple")
fire("c02-unfold-distribute-guard-reversed", "C02", OPTIMIZER,
     "        if v.red_op is ops.null and (v.bin_op, bin_op) in DISTRIBUTIVE_OPS:", "        if v.red_op is ops.null and (bin_op, v.bin_op) in DISTRIBUTIVE_OPS:", "R02.3", "unfold_contraction_generic_tuple")
fire("c02-unfold-pull-reduction-guard-dropped", "C02", OPTIMIZER,
     "        if red_op in (v.red_op, ops.null) and (v.red_op, bin_op) in DISTRIBUTIVE_OPS:", "        if red_op in (v.red_op, ops.null):", "R02.3", "unfold_contraction_generic_tuple")
silent("c02-s-optimizer-own-pair-guard-dropped", "C02", OPTIMIZER,  # own (red_op, bin_op): Contraction's precondition / supported-semiring premise
       "    if (red_op, bin_op) not in DISTRIBUTIVE_OPS:\n        return None\n\n    # build opt_einsum optimizer IR", "    # build opt_einsum optimizer IR")
fire("c02-scatter-seed-wrong-op", "C02", TENSOR,
     "    destin = ops.new_full(source.data, shape, ops.UNITS[op])", "    destin = ops.new_full(source.data, shape, ops.UNITS[ops.add])", "R02.5")
fire("c02-sum-product-seed-sum-op", "C02", "funsor/sum_product.py",
     "    return reduce(prod_op, factors, Number(UNITS[prod_op]))", "    return reduce(prod_op, factors, Number(UNITS[sum_op]))", "R02.5")
silent("c02-s-unit-filter-local-alias", "C02", CNF,
       "        new_terms = tuple(\n            t\n            for t in terms\n            if not (isinstance(t, Number) and t.data == ops.UNITS[bin_op])\n        )",
       "        unit = ops.UNITS[bin_op]\n        new_terms = tuple(\n            t for t in terms if not (isinstance(t, Number) and t.data == unit)\n        )")
silent("c02-s-subtract-explicit-unary", "C02", CNF,
       "def binary_subtract(op, lhs, rhs):\n    return lhs + -rhs", "def binary_subtract(op, lhs, rhs):\n    return Binary(ops.add, lhs, Unary(ops.neg, rhs))")

# ----------------------------------------------------------------------------------------------------------------- C08
fire("c08-unfold-distribute-guard-dropped", "C08", OPTIMIZER,
     "        if v.red_op is ops.null and (v.bin_op, bin_op) in DISTRIBUTIVE_OPS:", "        if v.red_op is ops.null:", "R08.2", "unfold_contraction_generic_tuple")
silent("c08-s-optimizer-guard-reversed-pair", "C08", OPTIMIZER,  # the optimizer then always declines: slower, same value
       "    if (red_op, bin_op) not in DISTRIBUTIVE_OPS:\n        return None\n\n    # build opt_einsum optimizer IR",
       "    if (bin_op, red_op) not in DISTRIBUTIVE_OPS:\n        return None\n\n    # build opt_einsum optimizer IR")
fire("c08-apply-optimizer-layers-over-eager", "C08", OPTIMIZER,
     "    with PrioritizedInterpretation(optimize_base, get_interpretation()):", "    with optimize:", "R08.4")
fire("c08-missing-var-logaddexp", "C08", TERMS,
     "            arg = ops.add(arg, math.log(multiplicity))", "            arg = ops.add(arg, multiplicity)", "R08.1", "_reduce_unrelated_vars")
silent("c08-s-guard-positive-form", "C08", OPTIMIZER,
       "    if (red_op, bin_op) not in DISTRIBUTIVE_OPS:\n        return None\n\n    # build opt_einsum optimizer IR",
       "    distributes = (red_op, bin_op) in DISTRIBUTIVE_OPS\n    if not distributes:\n        return None\n\n    # build opt_einsum optimizer IR")

# ----------------------------------------------------------------------------------------------------------------- C06
fire("c06-reduction-reads-dim", "C06", DOMAINS,
     "    dim = op.defaults.get(\"axis\", None)\n    ndims = len(domain.shape)", "    dim = op.defaults.get(\"dim\", None)\n    ndims = len(domain.shape)", "R06.1", "_find_domain_reduction")
fire("c06-reduction-reads-keepdim", "C06", DOMAINS,
     "    if op.defaults.get(\"keepdims\", False):", "    if op.defaults.get(\"keepdim\", False):", "R06.1", "_find_domain_reduction")
fire("c06-cat-reads-dim", "C06", DOMAINS,
     "def _find_domain_cat(op, parts):\n    dim = op.defaults[\"axis\"]", "def _find_domain_cat(op, parts):\n    dim = op.defaults[\"dim\"]", "R06.1", "_find_domain_cat")
fire("c06-mod-size-too-small", "C06", DOMAINS,
     "            dtype = max(0, rhs.dtype - 1)", "            dtype = max(0, rhs.dtype - 2)", "R06.2", "mod")
fire("c06-add-size-off-by-one", "C06", DOMAINS,
     "        dtype = op(lhs.dtype - 1, rhs.dtype - 1) + 1", "        dtype = op(lhs.dtype - 1, rhs.dtype - 1)", "R06.2")
fire("c06-eager-dtype-from-swapped-operands", "C06", TENSOR,
     "def eager_binary_number_tensor(op, lhs, rhs):\n    dtype = find_domain(op, lhs.output, rhs.output).dtype",
     "def eager_binary_number_tensor(op, lhs, rhs):\n    dtype = find_domain(op, rhs.output, lhs.output).dtype", "R06.3", "eager_binary_number_tensor")
fire("c06-eager-dtype-from-lhs-only", "C06", TENSOR,
     "def eager_binary_tensor_number(op, lhs, rhs):\n    dtype = find_domain(op, lhs.output, rhs.output).dtype",
     "def eager_binary_tensor_number(op, lhs, rhs):\n    dtype = lhs.dtype", "R06.3", "eager_binary_tensor_number")
fire("c06-tensor-output-ignores-inputs", "C06", TENSOR,
     "        output = Array[dtype, data.shape[len(inputs) :]]", "        output = Array[dtype, data.shape[len(inputs) + 1 :]]", "R06.4", "Tensor.__init__")
silent("c06-s-reduction-subscript-form", "C06", DOMAINS,
       "    if op.defaults.get(\"keepdims\", False):", "    if op.defaults[\"keepdims\"]:")
silent("c06-s-mod-size-sound-but-looser", "C06", DOMAINS,
       "            dtype = max(0, rhs.dtype - 1)", "            dtype = rhs.dtype")
silent("c06-s-local-alias-of-size", "C06", DOMAINS,
       "            size = (lhs.size - 1) // (rhs.size - 1) + 1\n            return Array[size, shape]",
       "            n, d = lhs.size, rhs.size\n            size = (n - 1) // (d - 1) + 1\n            return Array[size, shape]")

# ----------------------------------------------------------------------------------------------------------------- C16
REGISTRY = "funsor/registry.py"
fire("c16-dispatch-on-first-arg-only", "C16", REGISTRY,
     "        types = tuple(map(typing_wrap, map(deep_type, args)))", "        types = tuple(map(typing_wrap, map(deep_type, args[:1])))", "R16.1", "partial_call")
fire("c16-cache-write-under-other-key", "C16", REGISTRY,
     "            self._cache[types] = func\n        return func", "            self._cache[types[:1]] = func\n        return func", "R16.1", "partial_call")
fire("c16-cache-keyed-by-shallow-type", "C16", REGISTRY,
     "        try:\n            func = self._cache[types]\n        except KeyError:",
     "        shallow = tuple(map(type, args))\n        try:\n            func = self._cache[shallow]\n        except KeyError:", "R16.1", "partial_call")
fire("c16-duplicate-signature-different-rule", "C16", TENSOR, "<<EOF>>",
     "\n\n@eager.register(Binary, BinaryOp, Tensor, Number)\ndef eager_binary_tensor_number_fast(op, lhs, rhs):\n    data = op(lhs.data, rhs.data)\n    return Tensor(data, lhs.inputs, lhs.dtype)\n",
     "R16.3")
fire("c16-pattern-arity-too-short", "C16", TENSOR, "<<EOF>>",
     "\n\n@eager.register(Binary, BinaryOp, Tensor)\ndef eager_binary_tensor_any(op, lhs):\n    return None\n", "R16.4")
fire("c16-rule-takes-too-few-params", "C16", TENSOR,
     "@eager.register(Binary, BinaryOp, Tensor, Number)\ndef eager_binary_tensor_number(op, lhs, rhs):\n    dtype = find_domain(op, lhs.output, rhs.output).dtype\n    data = op(lhs.data, rhs.data)",
     "@eager.register(Binary, BinaryOp, Tensor, Number)\ndef eager_binary_tensor_number(op, lhs):\n    rhs = lhs\n    dtype = find_domain(op, lhs.output, rhs.output).dtype\n    data = op(lhs.data, rhs.data)", "R16.4")
fire("c16-reflect-types-from-partial-args", "C16", TERMS,
     "    arg_types = tuple(map(deep_type, args))", "    arg_types = tuple(map(deep_type, args[:-1])) + (object,)", "R16.5", "reflect")
fire("c16-subtype-oracle-counts-calls", "C16", TYPING,
     "@functools.lru_cache(maxsize=None)\ndef deep_issubclass(subcls, cls):", "_CALLS = []\n\n\n@functools.lru_cache(maxsize=None)\ndef deep_issubclass(subcls, cls):\n    _CALLS.append(subcls)\n    if len(_CALLS) > 1000:\n        return False", "R16.2")
silent("c16-s-types-via-generator", "C16", REGISTRY,
       "        types = tuple(map(typing_wrap, map(deep_type, args)))", "        types = tuple(typing_wrap(deep_type(arg)) for arg in args)")
silent("c16-s-identical-duplicate", "C16", CNF, "<<EOF>>",
       "\n\n@normalize.register(Binary, ops.SubOp, Funsor, Funsor)\ndef binary_subtract(op, lhs, rhs):\n    return lhs + -rhs\n")
silent("c16-s-new-unrelated-pattern", "C16", TENSOR, "<<EOF>>",
       "\n\n@eager.register(Binary, ops.GetitemOp, Number, Number)\ndef eager_getitem_number_number(op, lhs, rhs):\n    return None\n")

# ----------------------------------------------------------------------------------------------------------------- C18
PROGRAM = "funsor/ops/program.py"
COMPILER = "funsor/compiler.py"
fire("c18-ascode-inputs-before-constants", "C18", PROGRAM,
     "        for c in self.constants:\n            let(c)\n        for name in self.inputs:\n            let(name)\n",
     "        for name in self.inputs:\n            let(name)\n        for c in self.constants:\n            let(c)\n", "R18.1", "as_code")
fire("c18-call-inputs-before-constants", "C18", PROGRAM,
     "        env = list(self.constants)\n",
     "        env = []\n", "R18.1", "__call__")
fire("c18-compiler-inputs-before-constants", "C18", COMPILER,
     "    # Collect constants (leaves).\n    constants = []\n    for f in anf:\n        if isinstance(f, (Number, Tensor)):\n            ids[f] = len(ids)\n            constants.append(f.data)\n\n    # Collect input variables (leaves).\n    inputs = []\n    for k, d in expr.inputs.items():\n        f = Variable(k, d)\n        ids[f] = len(ids)\n        inputs.append(k)\n",
     "    # Collect input variables (leaves).\n    inputs = []\n    for k, d in expr.inputs.items():\n        f = Variable(k, d)\n        ids[f] = len(ids)\n        inputs.append(k)\n\n    # Collect constants (leaves).\n    constants = []\n    for f in anf:\n        if isinstance(f, (Number, Tensor)):\n            ids[f] = len(ids)\n            constants.append(f.data)\n",
     "R18.1", "compile_funsor")
fire("c18-unexpected-kwargs-ignored", "C18", PROGRAM,
     "        if kwargs:\n            raise ValueError(f\"Unrecognized kwargs: {set(kwargs)}\")\n", "", "R18.2", "__call__")
fire("c18-missing-input-defaults-to-zero", "C18", PROGRAM,
     "            if value is None:\n                raise ValueError(f\"Missing kwarg: {repr(name)}\")\n",
     "            if value is None:\n                value = 0.0\n", "R18.2", "__call__")
fire("c18-binary-operands-swapped", "C18", COMPILER,
     "            arg_ids = (ids[f.lhs], ids[f.rhs])", "            arg_ids = (ids[f.rhs], ids[f.lhs])", "R18.3", "compile_funsor")
fire("c18-lower-binary-swapped", "C18", COMPILER,
     "    return Binary(x.op, lhs, rhs)", "    return Binary(x.op, rhs, lhs)", "R18.3", "_lower_binary")
silent("c18-s-lower-contraction-folds-reversed", "C18", COMPILER,  # every associative op is commutative: same value
       "    terms = [_lower(term) for term in x.terms]", "    terms = [_lower(term) for term in reversed(x.terms)]")
fire("c18-lower-contraction-drops-first-term", "C18", COMPILER,
     "    terms = [_lower(term) for term in x.terms]", "    terms = [_lower(term) for term in x.terms[1:]]", "R18.3", "_lower_contraction")
fire("c18-lower-contraction-filters-numbers", "C18", COMPILER,
     "    terms = [_lower(term) for term in x.terms]", "    terms = [_lower(term) for term in x.terms if not isinstance(term, Number)]", "R18.3", "_lower_contraction")
fire("c18-lower-contraction-wrong-op", "C18", COMPILER,
     "    bin_op = functools.partial(Binary, x.bin_op)", "    bin_op = functools.partial(Binary, x.red_op)", "R18.3", "_lower_contraction")
fire("c18-result-is-first-slot", "C18", PROGRAM,
     "        result = env[-1]\n        return result", "        result = env[0]\n        return result", "R18.4", "__call__")
fire("c18-lower-contraction-ignores-reduction", "C18", COMPILER,
     "    if x.reduced_vars:\n        raise NotImplementedError(\"TODO\")\n\n", "", "R18.5", "_lower_contraction")
fire("c18-compiler-skips-unknown-nodes", "C18", COMPILER,
     "        else:\n            raise NotImplementedError(type(f).__name__)\n\n    return OpProgram", "        else:\n            continue\n\n    return OpProgram", "R18.5", "compile_funsor")
fire("c18-program-keeps-mutable-lists", "C18", PROGRAM,
     "        self.operations = tuple(operations)", "        self.operations = operations", "R18.6", "OpProgram.__init__")
silent("c18-s-call-explicit-membership-test", "C18", PROGRAM,
       "            value = kwargs.pop(name, None)\n            if value is None:\n                raise ValueError(f\"Missing kwarg: {repr(name)}\")\n",
       "            if name not in kwargs:\n                raise ValueError(f\"Missing kwarg: {repr(name)}\")\n            value = kwargs.pop(name)\n")
silent("c18-s-ascode-renamed-locals", "C18", PROGRAM,
       "        for c in self.constants:\n            let(c)\n        for name in self.inputs:\n            let(name)\n",
       "        for const in self.constants:\n            let(const)\n        for input_name in self.inputs:\n            let(input_name)\n")
silent("c18-s-result-via-pop", "C18", PROGRAM,
       "        result = env[-1]\n        return result", "        return env[-1]")

# ----------------------------------------------------------------------------------------------------------------- C11
fire("c11-product-rule-uncrossed", "C11", ADJOINT,
     "        lhs_adj = adj_prod_op(out_adj, rhs)\n        rhs_adj = adj_prod_op(out_adj, lhs)\n        return ((lhs, lhs_adj), (rhs, rhs_adj))",
     "        lhs_adj = adj_prod_op(out_adj, lhs)\n        rhs_adj = adj_prod_op(out_adj, rhs)\n        return ((lhs, lhs_adj), (rhs, rhs_adj))", "R11.4", "adjoint_binary")
fire("c11-contract-rule-uncrossed", "C11", ADJOINT,
     "        lhs_adj = adj_prod_op(out_adj, rhs)\n        rhs_adj = adj_prod_op(lhs, out_adj)\n",
     "        lhs_adj = adj_prod_op(out_adj, rhs)\n        rhs_adj = adj_prod_op(rhs, out_adj)\n", "R11.4", "adjoint_contract")
fire("c11-zero-from-prod-unit", "C11", ADJOINT,
     "        zero = to_funsor(ops.UNITS[sum_op])\n        one = to_funsor(ops.UNITS[bin_op])",
     "        zero = to_funsor(ops.UNITS[bin_op])\n        one = to_funsor(ops.UNITS[sum_op])", "R11.3")
fire("c11-root-seeded-with-zero", "C11", ADJOINT,
     "        adjoint_values[root] = one\n", "        adjoint_values[root] = zero\n", "R11.3")
fire("c11-tape-fifo", "C11", ADJOINT,
     "            output, fn, inputs = self.tape.pop()", "            output, fn, inputs = self.tape.pop(0)", "R11.2")
fire("c11-tape-records-outside-guard", "C11", ADJOINT,
     "            with self._old_interpretation:\n                result = cls(*args)\n            self.tape.append((result, cls, args))",
     "            result = cls(*args)\n            self.tape.append((result, cls, args))", "R11.2")
fire("c11-plate-divides-with-unsafe-inverse", "C11", ADJOINT,
     "        div_op = ops.SAFE_BINARY_INVERSES[adj_prod_op]", "        div_op = ops.SAFE_BINARY_INVERSES[adj_sum_op]", "R11.3", "adjoint_reduce")
fire("c11-cat-start-not-advanced-by-own-size", "C11", ADJOINT,
     "        start += part.inputs[part_name].dtype\n", "        start += parts[0].inputs[part_name].dtype\n", "R11.5", "adjoint_cat")
fire("c11-adjoint-pattern-arity", "C11", ADJOINT,
     "@adjoint_ops.register(Cat, AssociativeOp, AssociativeOp, Funsor, str, tuple, str)",
     "@adjoint_ops.register(Cat, AssociativeOp, AssociativeOp, Funsor, str, tuple)", "R11.1")
silent("c11-s-product-commuted", "C11", ADJOINT,
       "        lhs_adj = adj_prod_op(out_adj, rhs)\n        rhs_adj = adj_prod_op(out_adj, lhs)\n        return ((lhs, lhs_adj), (rhs, rhs_adj))",
       "        lhs_adj = adj_prod_op(rhs, out_adj)\n        rhs_adj = adj_prod_op(lhs, out_adj)\n        return ((lhs, lhs_adj), (rhs, rhs_adj))")
silent("c11-s-cat-size-local", "C11", ADJOINT,
       "        part_slice = Slice(\n            part_name, start, start + part.inputs[part_name].dtype, 1, size\n        )\n        part_adj = out_adj(**{name: part_slice})\n        in_adjs.append((part, part_adj))\n        start += part.inputs[part_name].dtype\n",
       "        part_size = part.inputs[part_name].dtype\n        part_slice = Slice(part_name, start, start + part_size, 1, size)\n        part_adj = out_adj(**{name: part_slice})\n        in_adjs.append((part, part_adj))\n        start += part_size\n")

# ----------------------------------------------------------------------------------------------------------------- later additions
fire("c01-mean-count-before-restriction", "C01", TERMS,
     "                reduced_vars &= self.input_vars\n                if not reduced_vars:\n                    return self\n                scale = 1 / reduce(ops.mul, [v.output.size for v in reduced_vars], 1)\n",
     "                scale = 1 / reduce(ops.mul, [v.output.size for v in reduced_vars], 1)\n                reduced_vars &= self.input_vars\n                if not reduced_vars:\n                    return self\n",
     "R01.5", "Funsor.reduce")
silent("c01-s-mean-without-restriction", "C01", TERMS,  # summing over a variable the operand lacks multiplies by its size: same mean
       "                reduced_vars &= self.input_vars\n                if not reduced_vars:\n                    return self\n                scale = 1 / reduce(ops.mul, [v.output.size for v in reduced_vars], 1)\n",
       "                if not reduced_vars:\n                    return self\n                scale = 1 / reduce(ops.mul, [v.output.size for v in reduced_vars], 1)\n")
silent("c01-s-mean-inline-count", "C01", TERMS,
       "                scale = 1 / reduce(ops.mul, [v.output.size for v in reduced_vars], 1)\n                return self.reduce(ops.add, reduced_vars) * scale\n",
       "                return self.reduce(ops.add, reduced_vars) / reduce(ops.mul, [v.output.size for v in reduced_vars], 1)\n")
fire("c07-getslice-key-drops-step", "C07", BUILTIN,
     "            (x.start, x.stop, x.step) if isinstance(x, slice) else x for x in index", "            (x.start, x.stop) if isinstance(x, slice) else x for x in index",
     "R07.3", "GetsliceMeta")


# ----------------------------------------------------------------------------------------------------------------- renamings
# behaviour-preserving: all locals of the function the rules look at are renamed and the module is re-emitted by
# ast.unparse (layout and comments change too).  One variant per anchor function per property that inspects it.
def rename(prop, file, qual):
    V.append(dict(id=f"{prop.lower()}-s-rename:{qual}", prop=prop, kind="silent", transform=("rename_locals", file, qual)))


for _p, _file, _quals in [
    ("C17", INTERP, ["Interpretation.__enter__", "PrioritizedInterpretation.__init__", "PrioritizedInterpretation.interpret", "memoize"]),
    ("C17", ADJOINT, ["AdjointTape.__enter__", "AdjointTape.interpret"]),
    ("C17", OPTIMIZER, ["apply_optimizer"]),
    ("C03", INTERP, ["Memoize.interpret", "memoize", "Interpretation.make_hash_key"]),
    ("C03", INTERPRETER, ["stack_reinterpret", "recursion_reinterpret"]),
    ("C07", TERMS, ["reflect", "FunsorMeta.__call__", "_alpha_mangle"]),
    ("C07", DOMAINS, ["ArrayType.__getitem__", "ProductDomain.__getitem__"]),
    ("C07", TYPING, ["GenericTypeMeta.__getitem__"]),
    ("C07", OP, ["OpMeta.__call__"]),
    ("C07", BUILTIN, ["GetsliceMeta.hash_args_kwargs"]),
    ("C07", INTERP, ["Interpretation.make_hash_key"]),
    ("C05", TERMS, ["reflect", "_alpha_mangle", "substitute", "SubstituteInterpretation.interpret", "Subs._alpha_convert", "Cat._alpha_convert",
                    "Independent._alpha_convert", "Reduce._alpha_convert"]),
    ("C05", INTERPRETER, ["gensym"]),
    ("C16", REGISTRY, ["PartialDispatcher.partial_call", "KeyedRegistry.__getitem__"]),
    ("C16", TERMS, ["reflect"]),
    ("C16", TYPING, ["deep_issubclass", "deep_type", "_deep_type_tuple", "_deep_type_frozenset"]),
    ("C18", PROGRAM, ["OpProgram.__call__", "OpProgram.as_code", "OpProgram.__init__"]),
    ("C18", COMPILER, ["compile_funsor", "_lower_contraction", "_lower_binary", "_lower_unary"]),
    ("C18", "funsor/ops/tracer.py", ["trace_function"]),
    ("C18", INTERPRETER, ["anf"]),
    ("C11", ADJOINT, ["AdjointTape.adjoint", "AdjointTape.interpret", "adjoint_binary", "adjoint_reduce", "adjoint_contract", "adjoint_cat"]),
    ("C06", DOMAINS, ["_find_domain_reduction", "_find_domain_floordiv", "_find_domain_mod", "_find_domain_associative_generic", "_find_domain_cat"]),
    ("C06", TENSOR, ["Tensor.__init__", "eager_binary_tensor_number", "eager_reduction_tensor"]),
    ("C02", CNF, ["normalize_contraction_generic_tuple"]),
    ("C02", OPTIMIZER, ["unfold_contraction_generic_tuple", "optimize_contract_finitary_funsor"]),
    ("C02", TERMS, ["_reduce_unrelated_vars"]),
    ("C02", TENSOR, ["eager_scatter_tensor"]),
    ("C01", TERMS, ["_reduce_unrelated_vars", "Funsor.reduce"]),
    ("C08", OPTIMIZER, ["unfold_contraction_generic_tuple", "optimize_contract_finitary_funsor", "apply_optimizer"]),
    ("C08", TERMS, ["_reduce_unrelated_vars"]),
    ("C15", ARRAY, ["_safe_logaddexp_tensor_tensor", "_safe_logaddexp_number_tensor", "logsumexp"]),
    ("C20", TERMS, ["Binary.__init__", "Funsor.approximate", "Approximate.__init__"]),
    ("C20", TENSOR, ["eager_getitem_tensor_variable", "eager_lambda", "Tensor.eager_subs", "align_tensors"]),
    ("C20", ARRAY, ["_scatter", "_scatter_add"]),
    ("C20", "funsor/einsum/numpy_log.py", ["einsum"]),
]:
    for _q in _quals:
        rename(_p, _file, _q)

fire("c02-pushdown-guard-dropped", "C02", CNF,
     "    if (\n        red_op is not ops.null\n        and bin_op is not ops.null\n        and (red_op, bin_op) not in DISTRIBUTIVE_OPS\n    ):\n        return None\n\n    # Count the number",
     "    # Count the number", "R02.6", "eager_contraction_generic_recursive")
fire("c08-pushdown-guard-on-reversed-pair", "C08", CNF,
     "        and (red_op, bin_op) not in DISTRIBUTIVE_OPS\n    ):\n        return None\n\n    # Count the number",
     "        and (bin_op, red_op) not in DISTRIBUTIVE_OPS\n    ):\n        return None\n\n    # Count the number", "R08.6", "eager_contraction_generic_recursive")
fire("c01-pushdown-guard-dropped", "C01", CNF,
     "    if (\n        red_op is not ops.null\n        and bin_op is not ops.null\n        and (red_op, bin_op) not in DISTRIBUTIVE_OPS\n    ):\n        return None\n\n    # Count the number",
     "    # Count the number", "R01.8", "eager_contraction_generic_recursive")
silent("c02-s-pushdown-guard-plain", "C02", CNF,
       "    if (\n        red_op is not ops.null\n        and bin_op is not ops.null\n        and (red_op, bin_op) not in DISTRIBUTIVE_OPS\n    ):\n        return None\n",
       "    if (red_op, bin_op) not in DISTRIBUTIVE_OPS:\n        return None\n")
rename("C02", CNF, "eager_contraction_generic_recursive")

fire("c02-same-op-restricts-vars", "C02", CNF,
     "        new_terms = tuple(v.reduce(red_op, reduced_vars) for v in terms)", "        new_terms = tuple(v.reduce(red_op, reduced_vars & v.input_vars) for v in terms)",
     "R02.7", "normalize_contraction_generic_tuple")
silent("c02-s-same-op-loop-form", "C02", CNF,
       "        new_terms = tuple(v.reduce(red_op, reduced_vars) for v in terms)",
       "        reduced = []\n        for v in terms:\n            reduced.append(v.reduce(red_op, reduced_vars))\n        new_terms = tuple(reduced)")
fire("c02-constant-count-over-all-vars", "C02", "funsor/constant.py",
     "        size = reduce(ops.mul, (var.output.size for var in reduced_const_vars))", "        size = reduce(ops.mul, (var.output.size for var in reduced_vars))",
     "R02.4", "eager_reduce_add")
fire("c03-memoize-cache-or-empty", "C03", INTERP,
     "        if cache is None:\n            cache = {}\n        else:\n            assert isinstance(cache, dict)\n        self.cache = cache",
     "        assert cache is None or isinstance(cache, dict)\n        self.cache = cache or {}", "R03.3", "Memoize.__init__")
fire("c03-memoize-cache-if-not", "C03", INTERP,
     "        if cache is None:\n            cache = {}\n        else:", "        if not cache:\n            cache = {}\n        else:", "R03.3", "Memoize.__init__")
silent("c03-s-memoize-cache-ifexp-none", "C03", INTERP,
       "        if cache is None:\n            cache = {}\n        else:\n            assert isinstance(cache, dict)\n        self.cache = cache",
       "        assert cache is None or isinstance(cache, dict)\n        self.cache = {} if cache is None else cache")
rename("C03", INTERP, "Memoize.__init__")
rename("C02", "funsor/constant.py", "eager_reduce_add")

# ----------------------------------------------------------------------------------------------------------------- C15 limits (R15.8 / R15.9)
NUMPY_LOG = "funsor/einsum/numpy_log.py"
fire("c15-logaddexp-array-unclamped", "C15", ARRAY,
     "    shift = np.clip(max(detach(x), detach(y)), finfo.min, None)\n", "    shift = max(detach(x), detach(y))\n", "R15.8", "_safe_logaddexp_tensor_tensor")
fire("c15-logaddexp-clamped-above-not-below", "C15", ARRAY,
     "    shift = np.clip(max(detach(x), detach(y)), finfo.min, None)\n", "    shift = np.clip(max(detach(x), detach(y)), None, finfo.max)\n", "R15.8", "_safe_logaddexp_tensor_tensor")
fire("c15-logaddexp-number-clamp-ignores-finfo", "C15", ARRAY,
     "    shift = np.clip(detach(y), max(x, finfo.min), None)\n", "    shift = np.clip(detach(y), x, None)\n", "R15.8", "_safe_logaddexp_number_tensor")
fire("c15-logsumexp-no-finite-guard", "C15", ARRAY,
     "    amax = np.where(np.isfinite(amax), amax, 0.0)\n", "", "R15.8", "logsumexp")
fire("c15-logeinsum-clamp-dropped", "C15", NUMPY_LOG,
     "        shift = ops.clamp(shift, ops.finfo(shift).min, None)\n", "", "R15.8", "einsum")
fire("c15-scalar-log-of-nan", "C15", BUILTIN,
     "    return math.log(x) if x > 0 else -math.inf", "    return math.log(x) if x != 0 else -math.inf", "R15.8", "logaddexp")
fire("c15-safesub-array-unclamped", "C15", ARRAY,
     "    return x + np.clip(-y, None, finfo.max)", "    return x - y", "R15.9", "_safesub")
fire("c15-safediv-array-unclamped", "C15", ARRAY,
     "    return x * np.clip(np.reciprocal(y), None, finfo.max)", "    return x * np.reciprocal(y)", "R15.9", "_safediv")
fire("c15-reciprocal-array-unclamped-then-scaled", "C15", ARRAY,
     "    result = np.clip(np.reciprocal(x), None, np.finfo(x.dtype).max)\n", "    result = np.reciprocal(x) * 0.0 + np.reciprocal(x)\n", "R15.9", "_reciprocal")
fire("c15-safesub-scalar-plain-sub", "C15", BUILTIN,
     "        return x + _builtin_min(-y, sys.float_info.max)", "        return sub(x, y)", "R15.9", "safesub")
silent("c15-s-logaddexp-clamp-via-maximum", "C15", ARRAY,
       "    shift = np.clip(max(detach(x), detach(y)), finfo.min, None)\n", "    shift = np.maximum(np.maximum(detach(x), detach(y)), finfo.min)\n")
silent("c15-s-logaddexp-two-step", "C15", ARRAY,
       "    shift = np.clip(max(detach(x), detach(y)), finfo.min, None)\n", "    biggest = max(detach(x), detach(y))\n    shift = np.clip(biggest, finfo.min, None)\n")
silent("c15-s-logsumexp-guard-via-clip", "C15", ARRAY,
       "    amax = np.where(np.isfinite(amax), amax, 0.0)\n", "    amax = np.clip(amax, np.finfo(amax.dtype).min, None)\n")
silent("c15-s-logeinsum-masked-clamp-on-copy", "C15", NUMPY_LOG,
       "        shift = ops.clamp(shift, ops.finfo(shift).min, None)\n",
       "        finfo = ops.finfo(shift)\n        shift = shift + 0.0\n        shift[shift < finfo.min] = finfo.min\n")
silent("c15-s-safesub-negate-first", "C15", ARRAY,
       "    return x + np.clip(-y, None, finfo.max)", "    neg_y = np.negative(y)\n    return x + np.clip(neg_y, None, finfo.max)")
rename("C15", NUMPY_LOG, "einsum")
rename("C15", ARRAY, "_safesub")
rename("C15", ARRAY, "_safediv")

fire("c05-unfold-freshness-test-dropped", "C05", OPTIMIZER,
     "        if v.reduced_vars and (\n            v.reduced_vars & reduced_vars\n            or any(v.reduced_vars & t.input_vars for t in siblings)\n        ):\n            continue\n", "", "R05.6", "unfold_contraction_generic_tuple")
fire("c08-unfold-freshness-test-dropped", "C08", OPTIMIZER,
     "        if v.reduced_vars and (\n            v.reduced_vars & reduced_vars\n            or any(v.reduced_vars & t.input_vars for t in siblings)\n        ):\n            continue\n", "", "R08.8", "unfold_contraction_generic_tuple")
fire("c05-normalize-fuse-with-siblings-and-binders", "C05", CNF,
     "        if (v.red_op is ops.null and bin_op is v.bin_op) or (\n            bin_op is ops.null and v.red_op in (red_op, ops.null)\n        ):",
     "        if (v.red_op in (red_op, ops.null) and bin_op is v.bin_op) or (\n            bin_op is ops.null and v.red_op in (red_op, ops.null)\n        ):", "R05.6", "normalize_contraction_generic_tuple")
silent("c05-s-unfold-freshness-isdisjoint", "C05", OPTIMIZER,
       "        if v.reduced_vars and (\n            v.reduced_vars & reduced_vars\n            or any(v.reduced_vars & t.input_vars for t in siblings)\n        ):\n            continue\n",
       "        if (v.reduced_vars & reduced_vars) or not all(v.reduced_vars.isdisjoint(t.input_vars) for t in siblings):\n            continue\n")
rename("C05", OPTIMIZER, "unfold_contraction_generic_tuple")

fire("c18-trace-record-drops-kwargs", "C18", OP,
     "                op = cls(*args[cls.arity :], **kwargs)\n                trace.setdefault(id(result), (result, op, args[: cls.arity]))",
     "                trace.setdefault(id(result), (result, self, raw_args))", "R18.7", "Op.__call__")
silent("c18-s-trace-record-inline-op", "C18", OP,
       "                op = cls(*args[cls.arity :], **kwargs)\n                trace.setdefault(id(result), (result, op, args[: cls.arity]))",
       "                trace.setdefault(id(result), (result, cls(*args[cls.arity :], **kwargs), args[: cls.arity]))")
rename("C18", OP, "Op.__call__")

fire("c18-print-op-nondefault-positional", "C18", PROGRAM,
     "        args = \", \".join(map(str, op.defaults.values()))",
     "        base = type(op)().defaults\n        args = \", \".join(str(v) for k, v in op.defaults.items() if base[k] != v)", "R18.5", "_print_op")
silent("c18-s-print-op-nondefault-by-name", "C18", PROGRAM,
       "        args = \", \".join(map(str, op.defaults.values()))",
       "        base = type(op)().defaults\n        args = \", \".join(f\"{k}={v}\" for k, v in op.defaults.items() if base[k] != v)")
silent("c18-s-print-op-comprehension", "C18", PROGRAM,
       "        args = \", \".join(map(str, op.defaults.values()))", "        args = \", \".join(str(v) for v in op.defaults.values())")
fire("c18-tracer-constant-guard-other-predicate", "C18", "funsor/ops/tracer.py",
     "            if not allow_constants and is_variable(result):", "            if not allow_constants and is_numeric_array(result):", "R18.5", "trace_function")

fire("c11-slice-tensor-branch-drops-step", "C11", TERMS,
     "            data = self.slice.start + self.slice.step * index.data\n            return type(index)(data, index.inputs, self.output.dtype)",
     "            data = self.slice.start + index.data\n            return type(index)(data, index.inputs, self.output.dtype)", "R11.6", "Slice.eager_subs")
rename("C11", TERMS, "Slice.eager_subs")


# the whole package re-emitted by ast.unparse: no rule may depend on layout, comments or line numbers
for _p in ("C01", "C02", "C03", "C05", "C06", "C07", "C08", "C11", "C15", "C16", "C17", "C18", "C20"):
    V.append(dict(id=f"{_p.lower()}-s-unparse-package", prop=_p, kind="silent", transform=("unparse_package", "", "")))

fire("c17-prioritized-dedup-keeps-last", "C17", INTERP,
     "        assert subinterpretations\n        assert len(subinterpretations) < 10",
     "        subinterpretations = tuple(dict.fromkeys(reversed(subinterpretations)))[::-1]\n        assert subinterpretations\n        assert len(subinterpretations) < 10", "R17.5")
silent("c17-s-prioritized-dedup-keeps-first", "C17", INTERP,
       "        assert subinterpretations\n        assert len(subinterpretations) < 10",
       "        subinterpretations = tuple(dict.fromkeys(subinterpretations))\n        assert subinterpretations\n        assert len(subinterpretations) < 10")
fire("c15-sample-array-registration-dropped", "C15", ARRAY,
     "@logaddexp.register(array, array)\n@sample.register(array, array)\n", "@logaddexp.register(array, array)\n", "R15.8", "sample")
fire("c15-safediv-scalar-plain-division", "C15", BUILTIN,
     "        return x * _builtin_min(1.0 / y if y != 0 else math.inf, sys.float_info.max)", "        return operator.truediv(x, y)", "R15.9", "safediv")

fire("c06-slice-stop-not-clamped", "C06", TERMS,
     "        stop = min(dtype, max(start, stop))\n", "        stop = max(start, stop)\n", "R06.6", "SliceMeta.__call__")
silent("c06-s-slice-clamp-two-steps", "C06", TERMS,
       "        stop = min(dtype, max(start, stop))\n", "        stop = max(start, stop)\n        stop = min(stop, dtype)\n")
rename("C06", TERMS, "SliceMeta.__call__")

fire("c15-scalar-log-zero-gives-zero", "C15", BUILTIN,
     "    return math.log(x) if x > 0 else -math.inf", "    return math.log(x) if x > 0 else 0.0", "R15.10", "log")

silent("c18-s-lower-contraction-balanced-fold-correct", "C18", COMPILER,
       "    return functools.reduce(bin_op, terms)",
       "    while len(terms) > 1:\n        if len(terms) % 2:\n            last = terms.pop()\n            terms[-1] = bin_op(terms[-1], last)\n        terms = [bin_op(lhs, rhs) for lhs, rhs in zip(terms[0::2], terms[1::2])]\n    return terms[0]")
fire("c18-lower-contraction-balanced-fold-loses-spare", "C18", COMPILER,
     "    return functools.reduce(bin_op, terms)",
     "    spare = None\n    while len(terms) > 1:\n        if len(terms) % 2:\n            spare = terms.pop()\n        terms = [bin_op(lhs, rhs) for lhs, rhs in zip(terms[0::2], terms[1::2])]\n    result = terms[0]\n    if spare is not None:\n        result = bin_op(result, spare)\n    return result",
     "R18.8", "_lower_contraction")

fire("c08-occurrence-count-over-dict-of-terms", "C08", CNF,
     "    for term in terms:\n        counts.update(reduced_vars & term.input_vars)\n",
     "    term_vars = {term: reduced_vars & term.input_vars for term in terms}\n    for term_reduced_vars in term_vars.values():\n        counts.update(term_reduced_vars)\n",
     "R08.10", "eager_contraction_generic_recursive")
silent("c08-s-occurrence-count-over-list", "C08", CNF,
       "    for term in terms:\n        counts.update(reduced_vars & term.input_vars)\n",
       "    per_term = [reduced_vars & term.input_vars for term in terms]\n    for term_reduced_vars in per_term:\n        counts.update(term_reduced_vars)\n")

fire("c05-integrate-renaming-map-filtered", "C05", "funsor/integrate.py",
     "            k: to_funsor(\n                v, self.integrand.inputs.get(k, self.log_measure.inputs.get(k))\n            )\n            for k, v in alpha_subs.items()\n",
     "            k: to_funsor(v, self.integrand.inputs[k])\n            for k, v in alpha_subs.items()\n            if k in self.integrand.inputs\n", "R05.1", "Integrate._alpha_convert")
fire("c05-step-names-sorted-independently", "C05", "funsor/sum_product.py",
     "    prev_to_drop = dict(zip(step.keys(), drop))\n    curr_to_drop = dict(zip(step.values(), drop))\n",
     "    prev_to_drop = dict(zip(sorted(step.keys()), drop))\n    curr_to_drop = dict(zip(sorted(step.values()), drop))\n", "R05.1", "sum_product", count=2, nth=0)
fire("c16-add-refills-dispatch-cache", "C16", REGISTRY,
     "        signature = tuple(map(typing_wrap, signature))\n        super().add(signature, func)\n",
     "        signature = tuple(map(typing_wrap, signature))\n        old = dict(self._cache)\n        super().add(signature, func)\n        self._cache.update(old)\n", "R16.6", "PartialDispatcher")
rename("C05", "funsor/integrate.py", "Integrate._alpha_convert")
rename("C05", "funsor/sum_product.py", "MarkovProduct._alpha_convert")
rename("C05", "funsor/sum_product.py", "sequential_sum_product")






fire("c07-unbounded-memo-on-op-rule", "C07", DOMAINS,
     "@find_domain.register(ops.ReductionOp)\ndef _find_domain_reduction(op, domain):", "@find_domain.register(ops.ReductionOp)\n@functools.lru_cache(maxsize=None)\ndef _find_domain_reduction(op, domain):",
     "R07.8", "_find_domain_reduction")
fire("c20-slice-augassign-on-index-data", "C20", TERMS,
     "            data = self.slice.start + self.slice.step * index.data\n            return type(index)(data, index.inputs, self.output.dtype)",
     "            data = index.data\n            if self.slice.step != 1:\n                data = data * self.slice.step\n            if self.slice.start != 0:\n                data += self.slice.start\n            return type(index)(data, index.inputs, self.output.dtype)",
     "R20.3", "Slice.eager_subs")

silent("c07-s-op-reduce-copies-defaults", "C07", OP,
       "        return apply, (type(self), (), self.defaults)", "        params = dict(self.defaults)\n        return apply, (type(self), (), params)")
fire("c07-op-reduce-drops-falsy-params", "C07", OP,
     "        return apply, (type(self), (), self.defaults)", "        params = {k: v for k, v in self.defaults.items() if v}\n        return apply, (type(self), (), params)", "R07.6", "Op.__reduce__")

silent("c07-s-hash-via-local", "C07", TERMS,
       "    def __hash__(self):\n        return id(self)\n", "    def __hash__(self):\n        ident = id(self)\n        return ident\n")
silent("c07-s-reduce-via-locals", "C07", TERMS,
       "        return type(self).__origin__, self._ast_values\n", "        cls = type(self).__origin__\n        args = self._ast_values\n        return cls, args\n")







# ----------------------------------------------------------------------------------------------------------------- C04
fire("c04-distribute-subs-one-pair-at-a-time", "C04", CNF,
     "    new_terms = tuple(\n        (\n            Subs(v, tuple((name, sub) for name, sub in subs if name in v.inputs))\n            if any(name in v.inputs for name, sub in subs)\n            else v\n        )\n        for v in arg.terms\n    )\n",
     "    new_terms = arg.terms\n    for name, sub in subs:\n        new_terms = tuple(\n            Subs(v, ((name, sub),)) if name in v.inputs else v for v in new_terms\n        )\n",
     "R04.1", "distribute_subs_contraction")
fire("c04-call-passes-all-keywords", "C04", TERMS,
     "        for k in self.inputs:\n            if k in kwargs:\n                subs[k] = kwargs[k]\n        return Subs(self, tuple(subs.items()))",
     "        subs.update(kwargs)\n        return Subs(self, tuple(subs.items()))", "R04.2", "Funsor.__call__")
fire("c04-subs-meta-keeps-foreign-keys", "C04", TERMS,
     "            (k, to_funsor(v, arg.inputs[k])) for k, v in subs if k in arg.inputs\n", "            (k, to_funsor(v, arg.inputs.get(k))) for k, v in subs\n", "R04.2", "SubsMeta.__call__")
fire("c04-subs-init-adds-before-removing", "C04", TERMS,
     "        for key, value in subs:\n            del inputs[key]\n        for key, value in subs:\n            inputs.update(value.inputs)\n",
     "        for key, value in subs:\n            inputs.update(value.inputs)\n        for key, value in subs:\n            del inputs[key]\n", "R04.3", "Subs.__init__")
fire("c04-subs-init-keeps-keys", "C04", TERMS,
     "        for key, value in subs:\n            del inputs[key]\n        for key, value in subs:\n            inputs.update(value.inputs)\n",
     "        for key, value in subs:\n            inputs.update(value.inputs)\n", "R04.3", "Subs.__init__")
silent("c04-s-subs-init-pop", "C04", TERMS,
       "        for key, value in subs:\n            del inputs[key]\n", "        for key, value in subs:\n            inputs.pop(key)\n")
silent("c04-s-call-items-loop", "C04", TERMS,
       "        for k in self.inputs:\n            if k in kwargs:\n                subs[k] = kwargs[k]\n", "        for name in self.inputs:\n            if name in kwargs:\n                subs[name] = kwargs[name]\n")
rename("C04", TERMS, "Subs.__init__")
rename("C04", TERMS, "Funsor.__call__")
rename("C04", TERMS, "SubsMeta.__call__")
rename("C04", CNF, "distribute_subs_contraction")
rename("C04", TENSOR, "Tensor.eager_subs")
V.append(dict(id="c04-s-unparse-package", prop="C04", kind="silent", transform=("unparse_package", "", "")))


fire("c18-lower-contraction-zip-pairs-drop-odd", "C18", COMPILER,
     "    bin_op = functools.partial(Binary, x.bin_op)\n    return functools.reduce(bin_op, terms)",
     "    while len(terms) > 1:\n        terms = [Binary(x.bin_op, lhs, rhs) for lhs, rhs in zip(terms[0::2], terms[1::2])]\n    return terms[0]", "R18.3", "_lower_contraction")
fire("c18-tracer-repeated-inputs-guard-vacuous", "C18", "funsor/ops/tracer.py",
     "    kwarg_ids = {id(v) for v in kwargs.values()}", "    kwarg_ids = [id(v) for v in kwargs.values()]", "R18.5", "trace_function")
silent("c18-s-tracer-repeated-inputs-guard-set-call", "C18", "funsor/ops/tracer.py",
       "    kwarg_ids = {id(v) for v in kwargs.values()}", "    kwarg_ids = set(id(v) for v in kwargs.values())")


fire("c15-safe-inverse-table-points-to-plain-sub", "C15", BUILTIN, "SAFE_BINARY_INVERSES[add] = safesub", "SAFE_BINARY_INVERSES[add] = sub", "R15.9", "SAFE_BINARY_INVERSES")
fire("c15-array-kernel-uses-float64-constant", "C15", ARRAY,
     "    try:\n        finfo = np.finfo(y.dtype)\n    except ValueError:\n        finfo = np.iinfo(y.dtype)\n    return x * np.clip(np.reciprocal(y), None, finfo.max)",
     "    import sys\n    return x * np.clip(np.reciprocal(y), None, sys.float_info.max)", "R15.9", "_safediv")


fire("c18-tracer-root-guard-dropped", "C18", "funsor/ops/tracer.py",
     "    if ids[id(root)] != len(ids) - 1:\n        raise ValueError(\"Function returns an input or constant unchanged\")\n", "", "R18.4", "trace_function")
silent("c18-s-tracer-root-guard-assert", "C18", "funsor/ops/tracer.py",
       "    if ids[id(root)] != len(ids) - 1:\n        raise ValueError(\"Function returns an input or constant unchanged\")\n", "    assert ids[id(root)] == len(ids) - 1, \"Function returns an input or constant unchanged\"\n")


fire("c08-tensor-contraction-passes-absent-vars", "C08", CNF,
     "    absent = reduced_vars - frozenset().union(*(term.input_vars for term in terms))\n    result = _eager_contract_tensors(reduced_vars - absent, terms, backend=backend)\n    return result.reduce(red_op, absent) if absent else result\n",
     "    return _eager_contract_tensors(reduced_vars, terms, backend=backend)\n", "R08.11", "eager_contraction_tensor", count=2, nth=0)
fire("c08-tensor-contraction-absent-vars-not-reduced", "C08", CNF,
     "    return result.reduce(red_op, absent) if absent else result\n", "    return result\n", "R08.11", "eager_contraction_tensor", count=2, nth=1)
rename("C08", CNF, "_eager_contract_tensors")


fire("c01-getitem-rule-ignores-offset", "C01", TENSOR,
     "    offset = op.defaults[\"offset\"]\n    index = [slice(None)] * (len(lhs.inputs) + offset)\n    index.append(rhs.data)\n    index = tuple(index)\n",
     "    index = (slice(None),) * len(lhs.inputs) + (rhs.data,)\n", "R01.11", "eager_getitem_tensor_number")
fire("c02-distribution-over-reducing-inner-term", "C02", OPTIMIZER,
     "        if v.red_op is ops.null and (v.bin_op, bin_op) in DISTRIBUTIVE_OPS:", "        if (v.bin_op, bin_op) in DISTRIBUTIVE_OPS:", "R02.3", "unfold_contraction_generic_tuple")
fire("c08-freshness-test-names-vs-variables", "C08", OPTIMIZER,
     "        if v.reduced_vars and (\n            v.reduced_vars & reduced_vars\n            or any(v.reduced_vars & t.input_vars for t in siblings)\n        ):\n            continue\n",
     "        sibling_inputs = frozenset().union(*(t.inputs for t in siblings))\n        if (v.reduced_vars & reduced_vars) or (v.reduced_vars & sibling_inputs):\n            continue\n", "R08.8", "unfold_contraction_generic_tuple")
silent("c08-s-freshness-test-via-local-union", "C08", OPTIMIZER,
       "        if v.reduced_vars and (\n            v.reduced_vars & reduced_vars\n            or any(v.reduced_vars & t.input_vars for t in siblings)\n        ):\n            continue\n",
       "        sibling_vars = frozenset().union(*(t.input_vars for t in siblings))\n        if v.reduced_vars & (sibling_vars | reduced_vars):\n            continue\n")
silent("c05-s-freshness-test-on-names", "C05", OPTIMIZER,
       "        if v.reduced_vars and (\n            v.reduced_vars & reduced_vars\n            or any(v.reduced_vars & t.input_vars for t in siblings)\n        ):\n            continue\n",
       "        if (v.reduced_vars & reduced_vars) or any(set(v.bound) & set(t.inputs) for t in siblings):\n            continue\n")
fire("c08-pairwise-count-at-least-two", "C08", CNF,
     "    reduced_twice = frozenset(v for v, count in counts.items() if count == 2)", "    reduced_twice = frozenset(v for v, count in counts.items() if count >= 2)", "R08.12", "eager_contraction_generic_recursive")
fire("c02-pairwise-all-shared-vars", "C02", CNF,
     "            unique_vars = reduced_twice.intersection(lhs.input_vars, rhs.input_vars)", "            unique_vars = reduced_vars.intersection(lhs.input_vars, rhs.input_vars)", "R02.10", "eager_contraction_generic_recursive")
fire("c03-memo-key-folds-varargs-off-by-one", "C03", INTERP,
     "        key = (cls,) + self.make_hash_key(cls, *args)",
     "        num_fields = len(cls._ast_fields)\n        key_args = args\n        if len(args) > num_fields:\n            key_args = args[: num_fields - 1] + (args[num_fields:],)\n        key = (cls,) + self.make_hash_key(cls, *key_args)",
     "R03.1", "Memoize.interpret")
silent("c03-s-memo-key-folds-varargs-correctly", "C03", INTERP,
       "        key = (cls,) + self.make_hash_key(cls, *args)",
       "        num_fields = len(cls._ast_fields)\n        key_args = args\n        if len(args) > num_fields:\n            key_args = args[: num_fields - 1] + (args[num_fields - 1 :],)\n        key = (cls,) + self.make_hash_key(cls, *key_args)")


fire("c11-adjoint-cat-tests-part-name", "C11", ADJOINT,
     "    if name not in out_adj.inputs:\n        return tuple((part, out_adj) for part in parts)", "    if part_name not in out_adj.inputs:\n        return tuple((part, out_adj) for part in parts)", "R11.5", "adjoint_cat")
fire("c11-adjoint-cat-slice-named-by-cat-dim", "C11", ADJOINT,
     "        part_slice = Slice(\n            part_name, start,", "        part_slice = Slice(\n            name, start,", "R11.5", "adjoint_cat")



# ---- R16.8 / R16.9 / R16.10 and R17.10 (round 4)
fire("c16-union-vs-union-by-member-set", "C16", TYPING,
     "    if get_origin(subcls) is typing.Union:\n        return all(",
     "    if get_origin(subcls) is typing.Union:\n        if get_origin(cls) is typing.Union:\n            return set(get_args(subcls)).issubset(get_args(cls))\n        return all(",
     "R16.8", "deep_issubclass")
fire("c16-tuple-components-contravariant", "C16", TYPING,
     "    return len(cls_args) == len(subcls_args) and all(\n        deep_issubclass(a, b) for a, b in zip(subcls_args, cls_args)\n    )",
     "    return len(cls_args) == len(subcls_args) and all(\n        deep_issubclass(b, a) for a, b in zip(subcls_args, cls_args)\n    )",
     "R16.8", "_subclasscheck_tuple")
fire("c16-frozenset-components-by-equality", "C16", TYPING,
     "    return len(subcls_args) == len(cls_args) == 1 and all(\n        deep_issubclass(a, b) for a, b in zip(subcls_args, cls_args)\n    )",
     "    return len(subcls_args) == len(cls_args) == 1 and subcls_args == cls_args",
     "R16.8", "_subclasscheck_frozenset")
fire("c16-variadic-compares-pattern-with-itself", "C16", TYPING,
     "        return all(deep_issubclass(a, cls_args[0]) for a in subcls_args)",
     "        return all(deep_issubclass(a, cls_args[0]) for a in cls_args[:-1])",
     "R16.8", "_subclasscheck_tuple")
silent("c16-s-recursive-call-via-loop", "C16", TYPING,
       "        return all(deep_issubclass(a, cls_args[0]) for a in subcls_args)",
       "        for a in subcls_args:\n            if not deep_issubclass(a, cls_args[0]):\n                return False\n        return True")
silent("c16-s-args-unpacked-separately", "C16", TYPING,
       "    cls_args, subcls_args = get_args(cls), get_args(subcls)\n\n    if not cls_args:  # cls is base Tuple",
       "    cls_args = get_args(cls)\n    subcls_args = get_args(subcls)\n\n    if not cls_args:  # cls is base Tuple")
V.append(dict(id="c16-params-never-canonicalised", prop="C16", kind="fire", expect_rule="R16.9", expect_in="__getitem__",
              edits=[(TYPING, "        arg_types = tuple(map(_type_to_typing, arg_types))\n", ""),
                     (TYPING, "            deep_issubclass(_type_to_typing(ps), _type_to_typing(pc))", "            deep_issubclass(ps, pc)")]))
silent("c16-s-canonicalise-only-at-construction", "C16", TYPING,
       "            deep_issubclass(_type_to_typing(ps), _type_to_typing(pc))", "            deep_issubclass(ps, pc)")
silent("c16-s-canonicalise-only-at-comparison", "C16", TYPING,
       "        arg_types = tuple(map(_type_to_typing, arg_types))\n", "")
silent("c16-s-canonicalise-by-comprehension", "C16", TYPING,
       "        arg_types = tuple(map(_type_to_typing, arg_types))\n", "        arg_types = tuple(_type_to_typing(t) for t in arg_types)\n")
fire("c16-variadic-from-first-element", "C16", REGISTRY,
     "Variadic[tuple(tp)] if isinstance(tp, list) else tp for tp in signature", "Variadic[tp[0]] if isinstance(tp, list) else tp for tp in signature", "R16.10", "add")
fire("c16-signature-tail-dropped", "C16", REGISTRY,
     "        signature = tuple(map(typing_wrap, signature))\n        super().add(signature, func)",
     "        signature = tuple(map(typing_wrap, signature))\n        super().add(signature[:3], func)", "R16.10", "add")
silent("c16-s-variadic-via-temp", "C16", REGISTRY,
       "        signature = (\n            Variadic[tuple(tp)] if isinstance(tp, list) else tp for tp in signature\n        )\n",
       "        signature = [Variadic[tuple(tp)] if isinstance(tp, list) else tp for tp in signature]\n")
fire("c17-montecarlo-rule-hands-term-to-eager", "C17", "funsor/montecarlo.py",
     "        return None  # cannot progress\n",
     "        from funsor.interpretations import eager\n        return eager.interpret(Integrate, log_measure, integrand, reduced_vars)\n", "R17.10", "monte_carlo_integrate")
fire("c17-moment-matching-rule-hands-term-to-lazy", "C17", "funsor/interpretations.py", "<<EOF>>",
     "\n\n@moment_matching.register(object, object)\ndef _mm_probe(a, b):\n    return lazy.interpret(object, a, b)\n", "R17.10", "_mm_probe")
silent("c17-s-rule-redispatches-within-own-layering", "C17", "funsor/interpretations.py", "<<EOF>>",
       "\n\n@moment_matching.register(object, object)\ndef _mm_probe(a, b):\n    return eager.interpret(object, a, b)\n")
silent("c17-s-rule-delegates-to-partial", "C17", "funsor/interpretations.py", "<<EOF>>",
       "\n\n@moment_matching.register(object, object)\ndef _mm_probe(a, b):\n    return lazy_base.interpret(object, a, b)\n")


# ---- round 4: R04.4-R04.7, R05.7/R05.8, R06.7-R06.9, R07.9, bound-method key, parametric return summaries (C20)
GAUSS = "funsor/gaussian.py"
fire("c04-fresh-subs-any", "C04", CNF, "    if all(name in arg.fresh for name, sub in subs):", "    if any(name in arg.fresh for name, sub in subs):", "R04.4", "do_fresh_subs")
fire("c04-distribute-subs-all", "C04", CNF, "            if any(name in v.inputs for name, sub in subs)", "            if all(name in v.inputs for name, sub in subs)", "R04.4", "distribute_subs_contraction")
silent("c04-s-fresh-subs-not-any-not-in", "C04", CNF, "    if all(name in arg.fresh for name, sub in subs):", "    if not any(name not in arg.fresh for name, sub in subs):")
silent("c04-s-distribute-subs-inverted", "C04", CNF,
       "            Subs(v, tuple((name, sub) for name, sub in subs if name in v.inputs))\n            if any(name in v.inputs for name, sub in subs)\n            else v",
       "            v\n            if all(name not in v.inputs for name, sub in subs)\n            else Subs(v, tuple((name, sub) for name, sub in subs if name in v.inputs))")
fire("c04-slice-tensor-branch-drops-start", "C04", TERMS,
     "            data = self.slice.start + self.slice.step * index.data\n            return type(index)(data, index.inputs, self.output.dtype)",
     "            data = self.slice.step * index.data\n            return type(index)(data, index.inputs, self.output.dtype)", "R04.5", "Slice.eager_subs")
silent("c04-s-slice-tensor-branch-commuted", "C04", TERMS,
       "            data = self.slice.start + self.slice.step * index.data\n            return type(index)(data, index.inputs, self.output.dtype)",
       "            data = index.data * self.slice.step + self.slice.start\n            return type(index)(data, index.inputs, self.output.dtype)")
fire("c04-affine-stage-without-clash-test", "C04", GAUSS,
     "        if any(remaining_names.intersection(v.inputs) for k, v in subs if k in affine):", "        if False:", "R04.6", "_eager_subs_affine")
fire("c04-var-stage-without-clash-test", "C04", GAUSS,
     "        if len(inputs) != len(self.inputs):\n            raise ValueError(\"Variable substitution name conflict\")\n", "", "R04.6", "_eager_subs_var")
fire("c04-affine-inputs-delete-insert-interleaved", "C04", GAUSS,
     "        for old_k, (const, coeffs) in affine.items():\n            for new_k, (coeff, eqn) in coeffs.items():\n                new_shape",
     "        for old_k, (const, coeffs) in affine.items():\n            new_real_inputs.pop(old_k, None)\n            for new_k, (coeff, eqn) in coeffs.items():\n                new_shape",
     "R04.7", "_eager_subs_affine")
fire("c05-independent-diag-var-conditionally-bound", "C05", TERMS,
     "        bound = {bint_var: fn.inputs[bint_var], diag_var: fn.inputs[diag_var]}\n",
     "        bound = {bint_var: fn.inputs[bint_var]}\n        if diag_var == reals_var:\n            bound[diag_var] = fn.inputs[diag_var]\n", "R05.7", "Independent.__init__")
fire("c05-independent-bint-var-not-bound", "C05", TERMS,
     "        bound = {bint_var: fn.inputs[bint_var], diag_var: fn.inputs[diag_var]}\n",
     "        bound = {diag_var: fn.inputs[diag_var]}\n", None, "Independent.__init__")
silent("c05-s-independent-bound-by-stores", "C05", TERMS,
       "        bound = {bint_var: fn.inputs[bint_var], diag_var: fn.inputs[diag_var]}\n",
       "        bound = {}\n        bound[bint_var] = fn.inputs[bint_var]\n        bound[diag_var] = fn.inputs[diag_var]\n")
fire("c05-adjoint-subs-stale-arg", "C05", ADJOINT,
     "        reduced_vars |= v.input_vars - relabeled_arg.input_vars", "        reduced_vars |= v.input_vars - arg.input_vars", "R05.8", "adjoint_subs")
fire("c06-astype-uint8-size-two", "C06", DOMAINS,
     '    elif op.defaults["dtype"] in ("bool"):', '    elif op.defaults["dtype"] in ("bool", "uint8"):', "R06.8", "_find_domain_astype")
silent("c06-s-astype-bool-tuple", "C06", DOMAINS,
       '    elif op.defaults["dtype"] in ("bool"):', '    elif op.defaults["dtype"] in ("bool", "bool_"):')
fire("c06-getitem-number-kernel-ignores-op", "C06", TENSOR,
     "    offset = op.defaults[\"offset\"]\n    index = [slice(None)] * (len(lhs.inputs) + offset)\n    index.append(rhs.data)",
     "    index = [slice(None)] * len(lhs.inputs)\n    index.append(rhs.data)", "R06.7", "eager_getitem_tensor_number")
fire("c06-distribute-subs-all", "C06", CNF, "            if any(name in v.inputs for name, sub in subs)", "            if all(name in v.inputs for name, sub in subs)", "R06.9", "distribute_subs_contraction")
fire("c07-kwargs-appended-in-call-order", "C07", TERMS,
     "            args = list(args)\n            for name in cls._ast_fields[len(args) :]:\n                args.append(kwargs.pop(name))\n            assert not kwargs, kwargs\n            args = tuple(args)",
     "            args = tuple(args) + tuple(kwargs.values())", "R07.9", "FunsorMeta.__call__")
fire("c07-kwargs-iterated-in-call-order", "C07", TERMS,
     "            for name in cls._ast_fields[len(args) :]:\n                args.append(kwargs.pop(name))\n            assert not kwargs, kwargs",
     "            for name in kwargs:\n                args.append(kwargs[name])", "R07.9", "FunsorMeta.__call__")
silent("c07-s-kwargs-checked-as-set", "C07", TERMS,
       "            assert not kwargs, kwargs\n", "            assert not set(kwargs), sorted(kwargs)\n")
silent("c07-s-kwargs-by-comprehension-over-fields", "C07", TERMS,
       "            args = list(args)\n            for name in cls._ast_fields[len(args) :]:\n                args.append(kwargs.pop(name))\n            assert not kwargs, kwargs\n            args = tuple(args)",
       "            args = tuple(args) + tuple(kwargs[name] for name in cls._ast_fields[len(args) :])")
fire("c07-wrapped-op-key-owner-only", "C07", OP,
     "                args = id(fn.__self__), fn.__func__  # e.g. t.log_abs_det_jacobian", "                args = (id(fn.__self__),)", "R07.3", "WrappedOpMeta.hash_args_kwargs")
silent("c07-s-wrapped-op-key-func-first", "C07", OP,
       "                args = id(fn.__self__), fn.__func__  # e.g. t.log_abs_det_jacobian", "                args = fn.__func__, id(fn.__self__)")
fire("c20-sample-cdf-in-aligned-logits", "C20", TENSOR,
     "            logit_max = np.amax(flat_logits, -1, keepdims=True)\n            probs = np.exp(flat_logits - logit_max)\n            probs = probs / np.sum(probs, -1, keepdims=True)\n            s = np.cumsum(probs, -1)",
     "            s = np.ascontiguousarray(flat_logits)\n            s -= np.amax(s, -1, keepdims=True)\n            np.exp(s, out=s)\n            s /= np.sum(s, -1, keepdims=True)\n            np.cumsum(s, -1, out=s)",
     None, "Tensor._sample")
silent("c20-s-sample-cdf-in-copy", "C20", TENSOR,
       "            logit_max = np.amax(flat_logits, -1, keepdims=True)\n            probs = np.exp(flat_logits - logit_max)\n            probs = probs / np.sum(probs, -1, keepdims=True)\n            s = np.cumsum(probs, -1)",
       "            s = np.array(flat_logits, copy=True)\n            s -= np.amax(s, -1, keepdims=True)\n            np.exp(s, out=s)\n            s /= np.sum(s, -1, keepdims=True)\n            np.cumsum(s, -1, out=s)")


# ---- R04.8 / R04.9
SUMPROD = "funsor/sum_product.py"
fire("c04-slice-into-slice-ignores-inner-stop", "C04", TERMS,
     "            stop = min(\n                self.slice.stop, self.slice.start + self.slice.step * index.slice.stop\n            )\n", "            stop = self.slice.stop\n",
     "R04.8", "Slice.eager_subs")
silent("c04-s-slice-into-slice-stop-via-locals", "C04", TERMS,
       "            stop = min(\n                self.slice.stop, self.slice.start + self.slice.step * index.slice.stop\n            )\n",
       "            inner_stop = index.slice.stop\n            stop = min(self.slice.stop, self.slice.start + self.slice.step * inner_stop)\n")
fire("c04-tensor-rename-without-clash-test", "C04", TENSOR,
     "                if subs[k].name in self.inputs and subs[k].name not in renamed\n", "                if False\n", "R04.9", "Tensor.eager_subs")
silent("c04-s-tensor-rename-clash-test-negated", "C04", TENSOR,
       "                if subs[k].name in self.inputs and subs[k].name not in renamed\n",
       "                if not (subs[k].name not in self.inputs or subs[k].name in renamed)\n")
fire("c04-markov-product-rename-without-clash-test", "C04", SUMPROD,
     "            if isinstance(v, Variable) and v.name not in self.inputs\n", "            if isinstance(v, Variable)\n", "R04.9", "MarkovProduct.eager_subs")
fire("c04-gaussian-var-stage-collapse-not-raised", "C04", GAUSS,
     "        if len(inputs) != len(self.inputs):\n            raise ValueError(\"Variable substitution name conflict\")\n", "        pass\n", None, "_eager_subs_var")


fire("c04-cat-slice-branch-keeps-old-name", "C04", TERMS,
     "            return Cat(value.name, tuple(new_parts), self.part_name)\n", "            return Cat(self.name, tuple(new_parts), self.part_name)\n", "R04.10", "Cat.eager_subs")
fire("c04-stack-variable-branch-keeps-old-name", "C04", TERMS,
     "                parts = self.parts\n                return Stack(index.name, parts)", "                parts = self.parts\n                return Stack(self.name, parts)", "R04.10", "Stack.eager_subs")


# ---- round 5: R18.9-R18.12, boundary clause of R15.8
COMPILER = "funsor/compiler.py"
TRACER = "funsor/ops/tracer.py"
PROGRAM = "funsor/ops/program.py"
NUMPY_LOG = "funsor/einsum/numpy_log.py"
fire("c18-op-reduce-drops-falsy-params", "C18", OP,
     "        return apply, (type(self), (), self.defaults)", "        params = {k: v for k, v in self.defaults.items() if v}\n        return apply, (type(self), (), params)", "R18.9", "Op.__reduce__")
fire("c18-as-code-no-trailing-comma", "C18", PROGRAM,
     '            args = " ".join(f"{prefix}{arg_id}," for arg_id in arg_ids)\n', '            args = ", ".join(f"{prefix}{arg_id}" for arg_id in arg_ids)\n', "R18.10", "as_code")
fire("c18-as-code-one-comma-after-arguments", "C18", PROGRAM,
     '            args = " ".join(f"{prefix}{arg_id}," for arg_id in arg_ids)\n            let(f"{op}({args})")',
     '            args = ", ".join(f"{prefix}{arg_id}" for arg_id in arg_ids)\n            let(f"{op}({args},)")', "R18.10", "as_code")
silent("c18-s-as-code-comma-per-argument-no-space", "C18", PROGRAM,
       '            args = " ".join(f"{prefix}{arg_id}," for arg_id in arg_ids)\n', '            args = "".join(f"{prefix}{arg_id}, " for arg_id in arg_ids)\n')
fire("c18-compile-allocates-id-for-arg-tuple", "C18", COMPILER,
     "        if isinstance(f, tuple):\n            continue  # Skip from Tuple directly to its elements.\n        ids[f] = len(ids)\n",
     "        ids[f] = len(ids)\n        if isinstance(f, tuple):\n            continue  # Skip from Tuple directly to its elements.\n", "R18.11", "compile_funsor")
fire("c18-tracer-constant-numbered-without-slot", "C18", TRACER,
     "            ids[id(result)] = len(ids)\n            constants.append(result)\n", "            ids[id(result)] = len(ids)\n            if allow_constants:\n                constants.append(result)\n",
     "R18.11", "trace_function")
fire("c18-tracer-discovery-order", "C18", TRACER,
     "    anf = [node for node in dag.values() if node[1] is None]\n    for result, op, args in trace.values():  # forward\n        if id(result) in dag and dag[id(result)][1] is not None:\n            anf.append(dag[id(result)])\n",
     "    anf = list(reversed(dag.values()))  # forward\n", "R18.12", "trace_function")
silent("c18-s-tracer-order-by-comprehension", "C18", TRACER,
       "    for result, op, args in trace.values():  # forward\n        if id(result) in dag and dag[id(result)][1] is not None:\n            anf.append(dag[id(result)])\n",
       "    anf += [dag[id(result)] for result, op, args in trace.values() if id(result) in dag and dag[id(result)][1] is not None]\n")
fire("c15-logsumexp-strict-finiteness-test", "C15", ARRAY,
     "    amax = np.where(np.isfinite(amax), amax, 0.0)", "    amax = np.where(np.abs(amax) < np.finfo(amax.dtype).max, amax, 0.0)", "R15.8", "logsumexp")
silent("c15-s-logsumexp-finiteness-by-abs", "C15", ARRAY,
       "    amax = np.where(np.isfinite(amax), amax, 0.0)", "    amax = np.where(np.abs(amax) <= np.finfo(amax.dtype).max, amax, 0.0)")
silent("c15-s-logsumexp-finiteness-by-isinf", "C15", ARRAY,
       "    amax = np.where(np.isfinite(amax), amax, 0.0)", "    amax = np.where(np.isinf(amax), 0.0, amax)")
fire("c15-logeinsum-uncontracted-operand-gets-ones", "C15", NUMPY_LOG,
     "        exp_operands.append(ops.exp(operand - shift))\n",
     "        if any(dim not in output for dim in dims):\n            exp_operands.append(ops.exp(operand - shift))\n        else:\n            exp_operands.append(ops.new_full(operand, operand.shape, 1.0))\n",
     "R15.8", "einsum")


# ---- symmetry of Python defaults (R01.12 / R15.11), name-based identity of logaddexp
fire("c01-logaddexp-default-asymmetric", "C01", ARRAY,
     "    return log(exp(x - shift) + exp(y - shift)) + shift\n", "    return shift + log1p(exp(y - x))\n", "R01.12", "logaddexp")
silent("c01-s-logaddexp-default-commuted", "C01", ARRAY,
       "    return log(exp(x - shift) + exp(y - shift)) + shift\n", "    return shift + log(exp(y - shift) + exp(x - shift))\n")
silent("c15-s-logaddexp-default-commuted", "C15", ARRAY,
       "    return log(exp(x - shift) + exp(y - shift)) + shift\n", "    return shift + log(exp(y - shift) + exp(x - shift))\n")
silent("c08-s-logaddexp-default-commuted", "C08", ARRAY,
       "    return log(exp(x - shift) + exp(y - shift)) + shift\n", "    return shift + log(exp(y - shift) + exp(x - shift))\n")
silent("c02-s-logaddexp-default-via-local", "C02", ARRAY,
       "    return log(exp(x - shift) + exp(y - shift)) + shift\n", "    total = exp(x - shift) + exp(y - shift)\n    return log(total) + shift\n")
fire("c15-logaddexp-default-log1p-abs-nan-at-minus-inf", "C15", ARRAY,
     "    return log(exp(x - shift) + exp(y - shift)) + shift\n", "    return shift + log1p(exp(-abs(x - y)))\n", "R15.8", "logaddexp")


# ---- round 5 algebra / adjoint rules
SUMPROD2 = "funsor/sum_product.py"
fire("c11-scatter-add-for-every-op", "C11", TENSOR,
     "    data = ops.scatter(destin, indices, source_data)\n", "    data = ops.scatter_add(destin, indices, source_data)\n", "R11.9", "eager_scatter_tensor")
silent("c11-s-scatter-add-only-for-add", "C11", TENSOR,
       "    data = ops.scatter(destin, indices, source_data)\n",
       "    if op is ops.add:\n        data = ops.scatter_add(destin, indices, source_data)\n    else:\n        data = ops.scatter(destin, indices, source_data)\n")
fire("c11-scatter-destination-filled-with-zero", "C11", TENSOR,
     "    destin = ops.new_full(source.data, shape, ops.UNITS[op])\n", "    destin = ops.new_full(source.data, shape, 0.0)\n", "R11.9", "eager_scatter_tensor")
fire("c02-markov-product-reduces-time-with-sum-op", "C02", SUMPROD2,
     "        result = trans.reduce(prod_op, time.name)\n", "        result = trans.reduce(sum_op, time.name)\n", "R02.12", "eager_markov_product")
fire("c02-reduction-kernel-returns-scalar-operand", "C02", TENSOR,
     "    if not arg.output.shape:\n        return Tensor(op(ops.unsqueeze(arg.data, -1), -1), arg.inputs, dtype)\n",
     "    if not arg.output.shape:\n        if dtype == arg.dtype == \"real\":\n            return arg\n        return Tensor(op(ops.unsqueeze(arg.data, -1), -1), arg.inputs, dtype)\n",
     "R02.13", "eager_reduction_tensor")
silent("c02-s-reduction-kernel-returns-operand-for-sum", "C02", TENSOR,
       "    if not arg.output.shape:\n        return Tensor(op(ops.unsqueeze(arg.data, -1), -1), arg.inputs, dtype)\n",
       "    if not arg.output.shape:\n        if op is ops.sum and arg.dtype == \"real\":\n            return arg\n        return Tensor(op(ops.unsqueeze(arg.data, -1), -1), arg.inputs, dtype)\n")
fire("c03-sequential-reduce-drops-absent-vars", "C03", TERMS,
     "def sequential_reduce(op, arg, reduced_vars):\n    arg, reduced_vars = _reduce_unrelated_vars(op, arg, reduced_vars)\n    if reduced_vars is None:\n        return arg\n",
     "def sequential_reduce(op, arg, reduced_vars):\n    reduced_vars = frozenset(v.name for v in reduced_vars & arg.input_vars)\n", "R03.9", "sequential_reduce")
fire("c08-multiplicity-over-set-of-sizes", "C08", TERMS,
     "            [\n                v.output.size**v.output.num_elements\n                for v in factor_vars\n                if v.dtype != \"real\"\n            ],\n",
     "            {\n                v.output.size**v.output.num_elements\n                for v in factor_vars\n                if v.dtype != \"real\"\n            },\n", "R08.13", "_reduce_unrelated_vars")
fire("c08-optimizer-never-reduces-absent-vars", "C08", OPTIMIZER,
     "    final_reduced_vars |= reduced_vars - frozenset().union(*inputs)\n", "", "R08.16", "optimize_contract_finitary_funsor")
silent("c08-s-optimizer-absent-vars-via-local", "C08", OPTIMIZER,
       "    final_reduced_vars |= reduced_vars - frozenset().union(*inputs)\n",
       "    absent = reduced_vars - frozenset().union(*inputs)\n    final_reduced_vars = final_reduced_vars | absent\n")


# ---- R06.10 / R01.17, R04.11, R04.12, R16.11, R11.9 injective renaming
fire("c06-lambda-boundary-from-variable-rank", "C06", TENSOR,
     "        dim = len(shape) - len(expr.output.shape)\n", "        dim = len(shape) - len(var.output.shape)\n", "R06.10", "eager_lambda")
fire("c01-binary-kernel-cut-from-other-operand", "C01", TENSOR,
     "            cut = len(lhs_data.shape) - lhs_dim\n            shape = lhs_data.shape\n            shape = shape[:cut] + (1,) * (rhs_dim - lhs_dim) + shape[cut:]",
     "            cut = len(lhs_data.shape) - rhs_dim\n            shape = lhs_data.shape\n            shape = shape[:cut] + (1,) * (rhs_dim - lhs_dim) + shape[cut:]", "R01.17", "eager_binary_tensor_tensor", count=2, nth=0)
silent("c06-s-lambda-boundary-via-local-rank", "C06", TENSOR,
       "        dim = len(shape) - len(expr.output.shape)\n", "        event_rank = len(expr.output.shape)\n        dim = len(shape) - event_rank\n")
fire("c04-fusion-filters-outer-pairs", "C04", TERMS,
     "    fused_subs += subs\n    return Subs(arg.arg, fused_subs)",
     "    introduced = frozenset().union(*(v.inputs for v in arg.subs.values()))\n    fused_subs += tuple((k, v) for k, v in subs if k not in introduced)\n    return Subs(arg.arg, fused_subs)",
     "R04.11", "eager_subs_subs")
fire("c02-fusion-inner-values-get-narrowed-subs", "C02", CNF,
     "    new_subs = subs + tuple((k, Subs(v, subs)) for k, v in arg_subs)\n",
     "    inner_subs = tuple((k, v) for k, v in subs if k not in arg.arg.inputs)\n    new_subs = subs + tuple((k, Subs(v, inner_subs)) for k, v in arg_subs)\n", "R02.17", "normalize_fuse_subs")
silent("c04-s-fusion-outer-pairs-first", "C04", TERMS,
       "    fused_subs = tuple((k, Subs(v, subs)) for k, v in arg.subs.items())\n    fused_subs += subs\n",
       "    inner = tuple((k, Subs(v, subs)) for k, v in arg.subs.items())\n    fused_subs = inner + subs\n")
fire("c04-gaussian-values-in-caller-order", "C04", GAUSS,
     "        value_b = ops.cat([values[k] for k, i in slices if k in b], -1)\n", "        value_b = ops.cat(list(values.values()), -1)\n", "R04.12", "_eager_subs_real")
fire("c16-bare-frozenset-subtype-of-everything", "C16", TYPING,
     "    if not subcls_args:\n        return cls_args[0] is typing.Any\n\n    return len(subcls_args) == len(cls_args) == 1",
     "    if not subcls_args:\n        return True\n\n    return len(subcls_args) == len(cls_args) == 1", "R16.11", "_subclasscheck_frozenset")
fire("c11-scatter-number-renaming-not-injective", "C11", TENSOR,
     "        if len({v.name for k, v in subs}) == len(subs):\n            return source\n", "        return source\n", "R11.9", "eager_scatter_number")


# ---- R04.13, R15.12, R15.13
BUILTIN2 = "funsor/ops/builtin.py"
fire("c04-cat-part-start-formula-for-later-parts-only", "C04", TERMS,
     "                if pos <= start:\n                    pstart = start - pos\n                else:\n                    # first index at or after pos that is congruent to start\n                    pstart = (start - pos) % step\n",
     "                if step > 1:\n                    pstart = ((pos - start) // step) * step - (pos - start)\n                    pstart = pstart + step if pstart < 0 else pstart\n                else:\n                    pstart = max(start - pos, 0)\n",
     "R04.13", "Cat.eager_subs")
fire("c04-cat-part-stop-ignores-slice-stop", "C04", TERMS,
     "                pstop = min(pos + psize, stop) - pos\n", "                pstop = psize\n", "R04.13", "Cat.eager_subs")
silent("c04-s-cat-part-start-conditional-expression", "C04", TERMS,
       "                if pos <= start:\n                    pstart = start - pos\n                else:\n                    # first index at or after pos that is congruent to start\n                    pstart = (start - pos) % step\n",
       "                pstart = (start - pos) if pos <= start else (step - (pos - start) % step) % step\n")
fire("c15-clamp-calls-its-bound-parameters", "C15", ARRAY,
     "    if min is not None:\n        x = _max(x, min)\n    if max is not None:\n        x = _min(x, max)\n    return x\n", "    return min(max(x, min), max)\n", "R15.12", "clamp")
fire("c15-invert-without-bool-implementation", "C15", BUILTIN2,
     "@invert.register(bool)\ndef _invert_bool(x):\n    return not x  # operator.invert(True) is the integer -2\n", "", "R15.13", "invert")


# ---- R06.11-R06.13
fire("c06-einsum-labels-in-union-order", "C06", TENSOR,
     '        "".join(new_symbols[k] for k in x.inputs) + x_out\n', '        "".join(new_symbols[k] for k in inputs if k in x.inputs) + x_out\n', "R06.11", "eager_einsum")
fire("c06-getslice-length-floor-instead-of-ceil", "C06", DOMAINS,
     "                shape[i] = max(0, (stop - start + step - 1) // step)\n                i -= 1", "                shape[i] = max(0, stop - start) // step\n                i -= 1", "R06.12", "_find_domain_getslice")
silent("c06-s-getslice-length-negated-floor", "C06", DOMAINS,
       "                shape[i] = max(0, (stop - start + step - 1) // step)\n                i -= 1", "                shape[i] = max(0, -((start - stop) // step))\n                i -= 1")
fire("c06-slice-tensor-branch-typed-by-index", "C06", TERMS,
     "            return type(index)(data, index.inputs, self.output.dtype)", "            return type(index)(data, index.inputs, index.dtype)", "R06.13", "Slice.eager_subs")


# ---- round 6: R07.8 b/c, R07.10, R16.12, R17.8 clauses, R17.11, R05.10 (known finding), R06.14, R04.16, R05.1 container
DELTA = "funsor/delta.py"
fire("c07-memoize-mutable-default", "C07", INTERP, "def memoize(cache=None):", "def memoize(cache={}):", "R07.8", "memoize")
fire("c07-per-term-memo-of-derived-terms", "C07", TERMS,
     "    def exp(self):\n        return Unary(ops.exp, self)\n",
     "    def exp(self):\n        try:\n            return self._memo[ops.exp]\n        except AttributeError:\n            self._memo = {}\n        except KeyError:\n            pass\n        self._memo[ops.exp] = Unary(ops.exp, self)\n        return self._memo[ops.exp]\n",
     "R07.8", "Funsor.exp")
fire("c07-tensor-meta-copies-data", "C07", TENSOR,
     "        if isinstance(data, np.generic):\n            data = data.__array__()\n",
     "        if isinstance(data, (np.generic, np.ndarray)):\n            data = np.asarray(data, order=\"C\")\n", "R07.10", "TensorMeta.__call__")
fire("c16-type-cache-created-unless-inherited", "C16", TYPING,
     "        else:\n            cls._type_cache = weakref.WeakValueDictionary()", "        elif not hasattr(cls, \"_type_cache\"):\n            cls._type_cache = weakref.WeakValueDictionary()", "R16.12", "GenericTypeMeta.__init__")
fire("c16-op-patterns-from-direct-bases", "C16", OP,
     "        for supercls in reversed(inspect.getmro(cls)):", "        for supercls in reversed(cls.__bases__):", "R16.12", "OpMeta.__init__")
silent("c16-s-op-patterns-from-dunder-mro", "C16", OP,
       "        for supercls in reversed(inspect.getmro(cls)):", "        for supercls in reversed(cls.__mro__):")
fire("c17-memoize-replaces-its-base", "C17", INTERP,
     "    def __init__(self, base_interpretation, cache=None):\n",
     "    def __init__(self, base_interpretation, cache=None):\n        if isinstance(base_interpretation, Memoize):\n            base_interpretation = base_interpretation.base_interpretation\n",
     "R17.8", "Memoize.__init__")
fire("c17-tape-delegate-not-restored", "C17", ADJOINT,
     "            self._old_interpretation = self._saved_interpretations.pop()\n", "            self._saved_interpretations.pop()\n", "R17.8", "AdjointTape")
fire("c17-tape-rebuilds-every-class-under-enclosing", "C17", ADJOINT,
     "        else:\n            result = self._old_interpretation.interpret(cls, *args)\n", "        else:\n            with self._old_interpretation:\n                result = cls(*args)\n", "R17.11", "AdjointTape.interpret")
fire("c06-delta-ignores-log-density-inputs", "C06", DELTA, "            inputs.update(log_density.inputs)\n", "", "R06.14", "Delta.__init__")
fire("c04-delta-match-on-any-coordinate", "C04", DELTA, "(value == point).all()", "(value == point).any()", "R04.16", "Delta.eager_subs")
fire("c05-contraction-binders-from-map-only", "C05", CNF,
     "        reduced_vars = frozenset(\n            to_funsor(alpha_subs.get(var.name, var), var.output)\n            for var in self.reduced_vars\n        )\n        alpha_subs = {k: to_funsor(v, self.bound[k]) for k, v in alpha_subs.items()}\n        red_op, bin_op, _, terms = super()._alpha_convert(alpha_subs)\n",
     "        alpha_subs = {k: to_funsor(v, self.bound[k]) for k, v in alpha_subs.items()}\n        red_op, bin_op, _, terms = super()._alpha_convert(alpha_subs)\n        reduced_vars = frozenset(alpha_subs.values())\n",
     "R05.1", "Contraction._alpha_convert")
fire("c05-fusion-wraps-only-values-with-fresh-keys", "C05", CNF,
     "    new_subs = subs + tuple((k, Subs(v, subs)) for k, v in arg_subs)\n",
     "    new_subs = subs + tuple(\n        (k, Subs(v, subs) if any(name in v.fresh for name, sub in subs) else v)\n        for k, v in arg_subs\n    )\n", "R05.9", "normalize_fuse_subs")
silent("c05-s-fusion-wraps-only-values-that-mention-a-key", "C05", CNF,
       "    new_subs = subs + tuple((k, Subs(v, subs)) for k, v in arg_subs)\n",
       "    new_subs = subs + tuple(\n        (k, Subs(v, subs) if any(name in v.inputs for name, sub in subs) else v)\n        for k, v in arg_subs\n    )\n")
silent("c05-s-approximate-fresh-only", "C05", TERMS,
       "        bound = {v.name: v.output for v in approx_vars}\n        super().__init__(inputs, output, fresh, bound)\n        self.op = op\n        self.model = model",
       "        bound = {}\n        super().__init__(inputs, output, fresh, bound)\n        self.op = op\n        self.model = model")


fire("c04-pairs-selected-by-fresh-names-of-result", "C04", TERMS,
     "            fresh = expr.fresh if node_fresh is None else node_fresh\n", "            fresh = expr.fresh\n", "R04.17", "SubstituteInterpretation.interpret")
fire("c04-driver-never-hands-over-node-fresh", "C04", TERMS,
     "                subs_interpretation.fresh = value.fresh\n", "                pass\n", "R04.17", "SubstituteInterpretation.interpret")
silent("c04-s-node-fresh-preferred-by-if-statement", "C04", TERMS,
       "            fresh = expr.fresh if node_fresh is None else node_fresh\n",
       "            fresh = node_fresh\n            if fresh is None:\n                fresh = expr.fresh\n")


fire("c15-sigmoid-inf-over-inf", "C15", BUILTIN2, "    return 1 / (1 + exp(-x))\n", "    z = exp(x)\n    return z / (1 + z)\n", "R15.10", "sigmoid")
silent("c15-s-sigmoid-via-local", "C15", BUILTIN2, "    return 1 / (1 + exp(-x))\n", "    e = exp(-x)\n    return 1 / (1 + e)\n")
fire("c15-max-scalar-array-cast-to-array-dtype", "C15", ARRAY,
     "@max.register((int, float), array)\ndef _max(x, y):\n    return np.clip(y, x, None)\n", "@max.register((int, float), array)\ndef _max(x, y):\n    return np.clip(y, x, None).astype(y.dtype, copy=False)\n",
     "R15.14", "_max")


# ---- round 6 second wave
AFFINE = "funsor/affine.py"
INTEGRATE = "funsor/integrate.py"
fire("c04-slice-composition-start-unscaled", "C04", TERMS,
     "            start = self.slice.start + self.slice.step * index.slice.start\n", "            start = self.slice.start + index.slice.start\n", "R04.18", "Slice.eager_subs")
silent("c04-s-slice-composition-commuted", "C04", TERMS,
       "            start = self.slice.start + self.slice.step * index.slice.start\n", "            start = index.slice.start * self.slice.step + self.slice.start\n")
fire("c04-rename-clash-single-pass", "C04", TENSOR,
     "        while True:\n            clashing = {\n                k\n                for k in renamed\n                if subs[k].name in self.inputs and subs[k].name not in renamed\n            }\n            if not clashing:\n                break\n            renamed -= clashing\n",
     "        renamed -= {\n            k\n            for k in renamed\n            if subs[k].name in self.inputs and subs[k].name not in renamed\n        }\n", "R04.19", "Tensor.eager_subs")
fire("c04-integrate-delta-substitutes-every-point", "C04", INTEGRATE,
     "    subs = tuple(\n        (name, point)\n        for name, (point, log_density) in delta.terms\n        if name in reduced_names\n    )\n",
     "    subs = tuple((name, point) for name, (point, log_density) in delta.terms)\n", "R04.20", "eager_integrate")
fire("c04-affine-reduce-ignores-op", "C04", AFFINE,
     "    if fn.op is ops.add:\n        reduced_names = frozenset(v.name for v in fn.reduced_vars)\n        return affine_inputs(fn.arg) - reduced_names\n    return frozenset()\n",
     "    return affine_inputs(fn.arg) - frozenset(v.name for v in fn.reduced_vars)\n", "R04.21", "_#4")
V.append(dict(id="c18-trace-record-from-call-site-arguments-only", prop="C18", kind="fire", expect_rule="R18.7", expect_in="Op.__call__",
              edits=[(OP, "        bound = cls.signature.bind_partial(*args, **kwargs)\n        for key, value in self.defaults.items():\n",
                      "        bound = cls.signature.bind_partial(*args, **kwargs)\n        call_args, call_kwargs = bound.args[cls.arity :], bound.kwargs\n        for key, value in self.defaults.items():\n"),
                     (OP, "                op = cls(*args[cls.arity :], **kwargs)\n", "                op = cls(*call_args, **call_kwargs)\n")]))
fire("c18-min-array-scalar-copied-from-max", "C18", ARRAY,
     "@min.register(array, (int, float))\ndef _min(x, y):\n    return np.clip(x, None, y)\n", "@min.register(array, (int, float))\ndef _min(x, y):\n    return np.clip(x, y, None)\n", "R18.14", "min")


fire("c05-unfold-freshness-guard-all-siblings", "C05", OPTIMIZER,
     "            or any(v.reduced_vars & t.input_vars for t in siblings)\n", "            or all(v.reduced_vars & t.input_vars for t in siblings)\n", "R05.6", "unfold_contraction_generic_tuple")
silent("c05-s-unfold-freshness-guard-not-all-disjoint", "C05", OPTIMIZER,
       "            or any(v.reduced_vars & t.input_vars for t in siblings)\n",
       "            or not all(v.reduced_vars.isdisjoint(t.input_vars) for t in siblings)\n")
fire("c15-logsumexp-shift-over-whole-array", "C15", ARRAY,
     "    amax = np.amax(x, axis=axis, keepdims=True)\n    # treat the case x = -inf", "    amax = np.amax(x, keepdims=True)\n    # treat the case x = -inf", "R15.15", "logsumexp")
fire("c11-rename-clash-tested-against-subs-only", "C11", TENSOR,
     "                if subs[k].name in self.inputs and subs[k].name not in renamed\n", "                if subs[k].name in subs and subs[k].name not in renamed\n", "R11.11", "Tensor.eager_subs")
fire("c02-mixture-merged-under-any-reduction", "C02", CNF,
     "def normalize_contraction_commute_joint(red_op, bin_op, reduced_vars, mixture, other):\n    if red_op is not ops.null and mixture.red_op not in (ops.null, red_op):\n        return None  # the two reductions differ and cannot be merged\n",
     "def normalize_contraction_commute_joint(red_op, bin_op, reduced_vars, mixture, other):\n", "R02.21", "normalize_contraction_commute_joint")


# ---- round 6 third wave: disjoint binders, results keep the reduction, unit filter
for _p, _r in (("C02", "R02.21"), ("C05", "R05.11"), ("C08", "R08.18")):
    fire(f"{_p.lower()}-unfold-merges-same-binder", _p, OPTIMIZER,
         "            v.reduced_vars & reduced_vars\n            or any(", "            any(", _r, "unfold_contraction_generic_tuple")
    fire(f"{_p.lower()}-normalize-fuses-same-binder", _p, CNF,
         "        if reduced_vars & v.reduced_vars:\n            continue\n", "", _r, "normalize_contraction_generic_tuple")
    silent(f"{_p.lower()}-s-disjoint-binders-spelled-isdisjoint", _p, CNF,
           "        if reduced_vars & v.reduced_vars:\n            continue\n", "        if not reduced_vars.isdisjoint(v.reduced_vars):\n            continue\n")
fire("c02-commute-joint-merges-same-binder", "C02", CNF,
     "    if reduced_vars & mixture.reduced_vars:\n        return None  # two reductions over the same variable do not merge\n    return Contraction(\n        mixture.red_op if red_op is ops.null else red_op,\n        bin_op,\n        reduced_vars | mixture.reduced_vars,\n        *(mixture.terms + (other,)),",
     "    return Contraction(\n        mixture.red_op if red_op is ops.null else red_op,\n        bin_op,\n        reduced_vars | mixture.reduced_vars,\n        *(mixture.terms + (other,)),", "R02.21", "normalize_contraction_commute_joint", count=2, nth=0)
for _p, _r in (("C02", "R02.22"), ("C08", "R08.17")):
    fire(f"{_p.lower()}-canonical-order-returns-plain-product", _p, CNF,
         "    if any(v is not vv for v, vv in zip(terms, new_terms)):\n        return Contraction(red_op, bin_op, reduced_vars, *new_terms)\n",
         "    if any(v is not vv for v, vv in zip(terms, new_terms)):\n        return bin_op(*new_terms)\n", _r, "normalize_contraction_commutative_canonical_order")
    silent(f"{_p.lower()}-s-canonical-order-via-local", _p, CNF,
           "    if any(v is not vv for v, vv in zip(terms, new_terms)):\n        return Contraction(red_op, bin_op, reduced_vars, *new_terms)\n",
           "    if any(v is not vv for v, vv in zip(terms, new_terms)):\n        rv = reduced_vars\n        return Contraction(red_op, bin_op, rv, *new_terms)\n")
fire("c08-unit-filter-drops-every-number", "C08", CNF,
     "            if not (isinstance(t, Number) and t.data == ops.UNITS[bin_op])\n        )\n        if not new_terms:", "            if not isinstance(t, Number)\n        )\n        if not new_terms:", "R08.5", "normalize_contraction_generic_tuple")
silent("c08-s-unit-filter-via-helper-lambda", "C08", CNF,
       "        new_terms = tuple(\n            t\n            for t in terms\n            if not (isinstance(t, Number) and t.data == ops.UNITS[bin_op])\n        )\n        if not new_terms:",
       "        unit = ops.UNITS[bin_op]\n        new_terms = tuple(\n            t for t in terms if not (isinstance(t, Number) and t.data == unit)\n        )\n        if not new_terms:")

ADJOINT_ = "funsor/adjoint.py"
_NARY_OLD = "    assert len(terms) == 1 or len(terms) == 2\n    return adjoint_ops(\n        Contraction,\n        adj_sum_op,\n        adj_prod_op,\n        out_adj,\n        sum_op,\n        prod_op,\n        reduced_vars,\n        *terms,\n    )\n"
_NARY_NEW = ("    if len(terms) > 2:\n        from functools import reduce\n        head, tail = terms[0], terms[1:]\n"
             "        (_, head_adj), (_, rest_adj) = adjoint_ops(Contraction, adj_sum_op, adj_prod_op, out_adj, sum_op, prod_op, reduced_vars, head, reduce(prod_op, tail))\n"
             "        tail_adjs = adjoint_contract_generic(adj_sum_op, adj_prod_op, %s, ops.null, prod_op, frozenset(), tail)\n"
             "        return ((head, head_adj),) + tail_adjs\n") + _NARY_OLD
fire("c11-nary-adjoint-tail-gets-bare-incoming-adjoint", "C11", ADJOINT_, _NARY_OLD, _NARY_NEW % "out_adj", "R11.13", "adjoint_contract_generic")
silent("c11-s-nary-adjoint-tail-gets-adjoint-of-rest", "C11", ADJOINT_, _NARY_OLD, _NARY_NEW % "rest_adj")
silent("c11-s-nary-adjoint-tail-gets-explicit-product", "C11", ADJOINT_, _NARY_OLD, _NARY_NEW % "adj_prod_op(out_adj, head)")


# ---- round 7: operand order, kernels, affine calculus, splits of the reduced variables, shapes
CONSTANT = "funsor/constant.py"
GAUSSIAN_ = "funsor/gaussian.py"
for _p, _r in (("C02", "R02.23"), ("C01", "R01.22")):
    fire(f"{_p.lower()}-constant-tensor-operands-swapped-under-wrapper", _p, CONSTANT,
         "    if const_inputs:\n        return Constant(const_inputs, op(lhs.arg, rhs))\n    return op(lhs.arg, rhs)\n",
         "    if const_inputs:\n        return Constant(const_inputs, op(rhs, lhs.arg))\n    return op(lhs.arg, rhs)\n", _r, "eager_binary_constant_tensor")
    silent(f"{_p.lower()}-s-constant-tensor-operands-via-locals", _p, CONSTANT,
           "    if const_inputs:\n        return Constant(const_inputs, op(lhs.arg, rhs))\n    return op(lhs.arg, rhs)\n",
           "    left, right = lhs.arg, rhs\n    if const_inputs:\n        return Constant(const_inputs, op(left, right))\n    return op(left, right)\n")
for _p, _r in (("C04", "R04.22"), ("C01", "R01.23"), ("C02", "R02.24"), ("C03", "R03.17")):
    fire(f"{_p.lower()}-binary-fast-path-compares-input-sets", _p, TENSOR,
         "    dtype = find_domain(op, lhs.output, rhs.output).dtype\n    if lhs.inputs == rhs.inputs:\n        inputs = lhs.inputs\n        lhs_data, rhs_data = lhs.data, rhs.data\n    else:\n        inputs, (lhs_data, rhs_data) = align_tensors(lhs, rhs)\n\n    # Reshape",
         "    dtype = find_domain(op, lhs.output, rhs.output).dtype\n    if set(lhs.inputs) == set(rhs.inputs):\n        inputs = lhs.inputs\n        lhs_data, rhs_data = lhs.data, rhs.data\n    else:\n        inputs, (lhs_data, rhs_data) = align_tensors(lhs, rhs)\n\n    # Reshape",
         _r, "eager_binary_tensor_tensor")
    silent(f"{_p.lower()}-s-binary-fast-path-compares-item-tuples", _p, TENSOR,
           "    dtype = find_domain(op, lhs.output, rhs.output).dtype\n    if lhs.inputs == rhs.inputs:\n        inputs = lhs.inputs\n        lhs_data, rhs_data = lhs.data, rhs.data\n    else:\n        inputs, (lhs_data, rhs_data) = align_tensors(lhs, rhs)\n\n    # Reshape",
           "    dtype = find_domain(op, lhs.output, rhs.output).dtype\n    if tuple(lhs.inputs.items()) == tuple(rhs.inputs.items()):\n        inputs = lhs.inputs\n        lhs_data, rhs_data = lhs.data, rhs.data\n    else:\n        inputs, (lhs_data, rhs_data) = align_tensors(lhs, rhs)\n\n    # Reshape")
_PAD_OLD = "        rhs_data = rhs_data.reshape(rhs_data.shape + (1,) * (len(lhs.output.shape) - 1))\n"
for _p, _r, _r2 in (("C04", "R04.23", "R04.24"), ("C03", "R03.18", "R03.19"), ("C01", "R01.24", "R01.25"), ("C02", "R02.25", "R02.26")):
    fire(f"{_p.lower()}-getitem-pad-from-index-operand-shape", _p, TENSOR, _PAD_OLD,
         "        rhs_data = rhs_data.reshape(rhs.data.shape + (1,) * (len(lhs.output.shape) - 1))\n", _r, "eager_getitem_tensor_tensor")
    fire(f"{_p.lower()}-getitem-pad-full-event-rank", _p, TENSOR, _PAD_OLD,
         "        rhs_data = rhs_data.reshape(rhs_data.shape + (1,) * len(lhs.output.shape))\n", _r2, "eager_getitem_tensor_tensor")
    silent(f"{_p.lower()}-s-getitem-pad-via-local-count", _p, TENSOR, _PAD_OLD,
           "        n_pad = len(lhs.output.shape) - 1\n        rhs_data = rhs_data.reshape(rhs_data.shape + (1,) * n_pad)\n")
fire("c04-affine-quotient-ignores-denominator", "C04", AFFINE,
     "        return affine_inputs(fn.lhs) - _real_inputs(fn.rhs)\n", "        return affine_inputs(fn.lhs)\n", "R04.25", "_#3")
fire("c04-affine-sum-is-union-again", "C04", AFFINE,
     "        return (lhs_affine | rhs_affine) - lhs_nonaffine - rhs_nonaffine\n", "        return lhs_affine | rhs_affine\n", "R04.25", "_#3")
fire("c04-affine-product-bilinear-claimed", "C04", AFFINE,
     "        # This multilinear case introduces incompleteness, since some vars\n        # could later be reduced, making remaining vars affine.\n        return frozenset()\n    return frozenset()\n\n\n@affine_inputs.register(Reduce)",
     "        return lhs_affine | rhs_affine\n    return frozenset()\n\n\n@affine_inputs.register(Reduce)", "R04.25", "_#3")
silent("c04-s-affine-sum-intersection-spelling", "C04", AFFINE,
       "        return (lhs_affine | rhs_affine) - lhs_nonaffine - rhs_nonaffine\n",
       "        return (lhs_affine | rhs_affine) - (lhs_nonaffine | rhs_nonaffine)\n")
fire("c04-gaussian-real-stage-keeps-int-pairs", "C04", GAUSSIAN_,
     "        if int_subs:\n            return self._eager_subs_int(int_subs, real_subs + affine_subs + lazy_subs)\n        if real_subs:\n            return self._eager_subs_real(real_subs, affine_subs + lazy_subs)\n",
     "        if real_subs:\n            return self._eager_subs_real(real_subs, int_subs + affine_subs + lazy_subs)\n        if int_subs:\n            return self._eager_subs_int(int_subs, affine_subs + lazy_subs)\n",
     "R04.6", "_eager_subs_real")
for _p, _r in (("C04", "R04.17"), ("C05", "R05.13")):
    fire(f"{_p.lower()}-substitute-fresh-falls-back-when-empty", _p, TERMS,
         "            fresh = expr.fresh if node_fresh is None else node_fresh\n", "            fresh = node_fresh if node_fresh else expr.fresh\n", _r, "SubstituteInterpretation.interpret")
    silent(f"{_p.lower()}-s-substitute-fresh-is-not-none", _p, TERMS,
           "            fresh = expr.fresh if node_fresh is None else node_fresh\n", "            fresh = node_fresh if node_fresh is not None else expr.fresh\n")
for _p, _r in (("C01", "R01.26"), ("C08", "R08.19"), ("C02", "R02.27"), ("C03", "R03.20")):
    fire(f"{_p.lower()}-stack-parts-reduced-over-own-inputs", _p, TERMS,
         "        parts = tuple(x.reduce(op, reduced_vars) for x in parts)\n        return Stack(self.name, parts)",
         "        parts = tuple(x.reduce(op, reduced_vars & x.input_vars) for x in parts)\n        return Stack(self.name, parts)", _r, "Stack.eager_reduce")
for _p, _r in (("C08", "R08.20"), ("C06", "R06.15"), ("C01", "R01.27"), ("C02", "R02.28")):
    fire(f"{_p.lower()}-constant-reduce-restarts-from-body", _p, CONSTANT,
         "        result = prod_op(result, size)\n", "        result = prod_op(arg.arg, size)\n", _r, "eager_reduce_add")
    silent(f"{_p.lower()}-s-constant-reduce-via-second-local", _p, CONSTANT,
           "        result = prod_op(result, size)\n", "        scaled = prod_op(result, size)\n        result = scaled\n")
for _p, _r in (("C02", "R02.29"), ("C01", "R01.28"), ("C08", "R08.21")):
    fire(f"{_p.lower()}-independent-delta-no-alternative", _p, DELTA,
         "            else:\n                log_density = log_density * delta.inputs[bint_var].dtype\n", "", _r, "eager_independent_delta")
fire("c06-matmul-domain-left-batch-only", "C06", DOMAINS,
     "        shape = broadcast_shape(lhs.shape[:-1], rhs.shape[:-2] + (1,)) + rhs.shape[-1:]\n",
     "        shape = lhs.shape[:-1] + rhs.shape[-1:] if len(lhs.shape) >= len(rhs.shape) else rhs.shape[:-2] + lhs.shape[-2:-1] + rhs.shape[-1:]\n", "R06.16", "_find_domain_matmul")
fire("c06-ellipsis-fill-ignores-right-part", "C06", BUILTIN,
     "    middle = (slice(None),) * (size - len(left) - len(right))\n", "    middle = (slice(None),) * (size - len(left))\n", "R06.17", "normalize_ellipsis")
silent("c06-s-ellipsis-fill-regrouped", "C06", BUILTIN,
       "    middle = (slice(None),) * (size - len(left) - len(right))\n", "    middle = (slice(None),) * (size - (len(left) + len(right)))\n")
for _p, _r in (("C07", "R07.3"), ("C01", "R01.21")):
    fire(f"{_p.lower()}-op-key-is-hash-of-kwargs", _p, OP,
         "        return args, tuple(kwargs.items())\n", "        return args, hash(tuple(kwargs.items()))\n", _r, "hash_args_kwargs")
fire("c07-cons-cache-created-unless-inherited", "C07", TERMS,
     "            cls._cons_cache = WeakValueDictionary()\n", "            if not hasattr(cls, \"_cons_cache\"):\n                cls._cons_cache = WeakValueDictionary()\n", "R07.11", "FunsorMeta.__init__")

for _p, _r in (("C04", "R04.26"), ("C05", "R05.14")):
    fire(f"{_p.lower()}-tensor-subs-kept-inputs-tested-against-result-inputs", _p, TENSOR,
         "        # Use advanced indexing to construct a simultaneous substitution.\n        index = []\n        for k, domain in self.inputs.items():\n            if k in subs:\n",
         "        # Use advanced indexing to construct a simultaneous substitution.\n        index = []\n        for k, domain in self.inputs.items():\n            if k not in inputs:\n", _r, "Tensor.eager_subs")
    silent(f"{_p.lower()}-s-tensor-subs-keys-as-frozenset", _p, TENSOR,
           "        # Use advanced indexing to construct a simultaneous substitution.\n        index = []\n        for k, domain in self.inputs.items():\n            if k in subs:\n",
           "        # Use advanced indexing to construct a simultaneous substitution.\n        index = []\n        substituted = frozenset(subs)\n        for k, domain in self.inputs.items():\n            if k in substituted:\n")
fire("c16-op-call-shortcut-for-python-scalars", "C16", OP,
     "        fn = cls.dispatcher.partial_call(*args[: cls.arity])\n", "        fn = cls.default if all(type(x) is float for x in args[: cls.arity]) else cls.dispatcher.partial_call(*args[: cls.arity])\n", "R16.13", "Op.__call__")
fire("c16-deep-isinstance-handler-answers-false", "C16", "funsor/typing.py",
     "    except TypeError:\n        return isinstance(obj, cls)\n", "    except TypeError:\n        return False\n", "R16.14", "deep_isinstance")
fire("c17-memoize-does-not-report-totality", "C17", INTERP,
     "    @property\n    def is_total(self):\n        return self.base_interpretation.is_total\n\n    def interpret(self, cls, *args):\n        key",
     "    def interpret(self, cls, *args):\n        key", "R17.13", "Memoize")
fire("c20-index-data-shape-assigned-in-place", "C20", TENSOR, _PAD_OLD,
     "        rhs_data.shape = rhs_data.shape + (1,) * (len(lhs.output.shape) - 1)\n", "R20.1", "eager_getitem_tensor_tensor")
fire("c15-logsumexp-shift-repaired-only-if-all-infinite", "C15", ARRAY,
     "    amax = np.where(np.isfinite(amax), amax, 0.0)\n", "    if not np.isfinite(amax).any():\n        amax = np.zeros_like(amax)\n", "R15.8", "logsumexp")
silent("c15-s-logsumexp-shift-repaired-via-mask-local", "C15", ARRAY,
       "    amax = np.where(np.isfinite(amax), amax, 0.0)\n", "    finite = np.isfinite(amax)\n    amax = np.where(finite, amax, 0.0)\n")

# ---- C19 (claimed since round 7)
fire("c19-tensor-align-inverse-permutation", "C19", TENSOR,
     "        permutation = tuple(old_dims.index(d) for d in new_dims)\n", "        permutation = tuple(new_dims.index(d) for d in old_dims)\n", "R19.1", "Tensor.align")
silent("c19-s-tensor-align-permutation-as-list", "C19", TENSOR,
       "        permutation = tuple(old_dims.index(d) for d in new_dims)\n", "        layout = list(self.inputs)\n        permutation = tuple([layout.index(d) for d in new_dims])\n")
fire("c19-align-tensor-permutes-from-sorted-keys", "C19", TENSOR,
     "    x_keys = tuple(old_inputs)\n", "    x_keys = tuple(sorted(old_inputs))\n", "R19.1", "align_tensor")
fire("c19-aligned-inputs-drop-the-rest", "C19", TENSOR,
     "        inputs = OrderedDict((name, self.inputs[name]) for name in names)\n        inputs.update(self.inputs)\n        old_dims",
     "        inputs = OrderedDict((name, self.inputs[name]) for name in names)\n        old_dims", "R19.2", "Tensor.align")
fire("c19-align-term-inputs-only-own-order", "C19", TERMS,
     "        inputs = OrderedDict((name, arg.inputs[name]) for name in names)\n        inputs.update(arg.inputs)\n        output = arg.output\n        fresh = frozenset()  # TODO",
     "        inputs = OrderedDict(arg.inputs)\n        output = arg.output\n        fresh = frozenset()  # TODO", "R19.2", "Align.__init__")
fire("c19-pack-key-off-by-one", "C19", TENSOR,
     "            name = dim_to_name.get(dim + len(output.shape) - len(x.shape), None)\n", "            name = dim_to_name.get(dim + len(output.shape) - len(x.shape) - 1, None)\n", "R19.3", "tensor_to_funsor")
silent("c19-s-pack-key-regrouped", "C19", TENSOR,
       "            name = dim_to_name.get(dim + len(output.shape) - len(x.shape), None)\n", "            name = dim_to_name.get(dim - (len(x.shape) - len(output.shape)), None)\n")
fire("c19-unpack-batch-shape-from-count", "C19", TENSOR,
     "        batch_shape = [1] * -min(dims)\n", "        batch_shape = [1] * len(dims)\n", "R19.3", "tensor_to_data")
fire("c19-materialize-skips-after-first", "C19", TENSOR,
     "                subs.append((name, self.new_arange(name, domain.dtype)))\n", "                subs.append((name, self.new_arange(name, domain.dtype)))\n                break\n", "R19.4", "Tensor.materialize")

# ---- C09 (claimed since round 8)
SUMPROD = "funsor/sum_product.py"
fire("c09-ordinal-of-variable-is-a-union", "C09", SUMPROD,
     "    for f in factors:\n        ordinal = plates.intersection(f.inputs)\n        ordinal_to_factors[ordinal].append(f)\n        for var in sum_vars.intersection(f.inputs):\n            var_to_ordinal[var] = var_to_ordinal.get(var, ordinal) & ordinal\n\n    ordinal_to_vars = defaultdict(set)\n    for var, ordinal in var_to_ordinal.items():\n        ordinal_to_vars[ordinal].add(var)\n\n    results = []\n",
     "    for f in factors:\n        ordinal = plates.intersection(f.inputs)\n        ordinal_to_factors[ordinal].append(f)\n        for var in sum_vars.intersection(f.inputs):\n            var_to_ordinal[var] = var_to_ordinal.get(var, ordinal) | ordinal\n\n    ordinal_to_vars = defaultdict(set)\n    for var, ordinal in var_to_ordinal.items():\n        ordinal_to_vars[ordinal].add(var)\n\n    results = []\n",
     "R09.1", "partial_sum_product", count=3, nth=0)
fire("c09-shallowest-ordinal-first", "C09", SUMPROD, "        leaf = max(ordinal_to_factors, key=len)  # CHOICE\n", "        leaf = min(ordinal_to_factors, key=len)  # CHOICE\n", "R09.2", "partial_sum_product")
silent("c09-s-leaf-from-keys-view", "C09", SUMPROD, "        leaf = max(ordinal_to_factors, key=len)  # CHOICE\n", "        leaf = max(ordinal_to_factors.keys(), key=len)  # CHOICE\n")
fire("c09-requeued-factor-reduced-over-whole-leaf", "C09", SUMPROD,
     "                reduced_plates = leaf - new_plates\n", "                reduced_plates = leaf & eliminate\n", "R09.3", "partial_sum_product")
fire("c09-final-scale-skipped", "C09", SUMPROD,
     "                f = f.reduce(prod_op, leaf & eliminate)\n                if plate_to_scale:\n                    f_scales = [\n                        plate_to_scale[plate]\n                        for plate in leaf & eliminate\n                        if plate in plate_to_scale\n                    ]\n                    if f_scales:\n                        scale = reduce(ops.mul, f_scales)\n                        f = pow_op(f, scale)\n                results.append(f)\n",
     "                f = f.reduce(prod_op, leaf & eliminate)\n                results.append(f)\n", "R09.4", "partial_sum_product")
fire("c09-scale-of-all-leaf-plates-on-requeue", "C09", SUMPROD,
     "                        plate_to_scale[plate]\n                        for plate in reduced_plates\n", "                        plate_to_scale[plate]\n                        for plate in leaf\n", "R09.4", "partial_sum_product")
fire("c09-sum-product-folds-from-first-factor", "C09", SUMPROD,
     "    return reduce(prod_op, factors, Number(UNITS[prod_op]))\n", "    return reduce(prod_op, factors)\n", "R09.5", "sum_product")

# ---- C10 (claimed since round 8)
fire("c10-scan-odd-tail-in-front", "C10", SUMPROD, "            contracted = Cat(time, (contracted, extra))\n", "            contracted = Cat(time, (extra, contracted))\n", "R10.1", "sequential_sum_product")
fire("c10-scan-pairs-shifted-by-one", "C10", SUMPROD,
     "        y = trans(**{time: Slice(time, 1, even_duration, 2, duration)}, **prev_to_drop)\n", "        y = trans(**{time: Slice(time, 2, even_duration, 2, duration)}, **prev_to_drop)\n", "R10.1", "sequential_sum_product")
fire("c10-scan-roles-of-the-pieces-swapped", "C10", SUMPROD,
     "        x = trans(**{time: Slice(time, 0, even_duration, 2, duration)}, **curr_to_drop)\n        y = trans(**{time: Slice(time, 1, even_duration, 2, duration)}, **prev_to_drop)\n",
     "        x = trans(**{time: Slice(time, 0, even_duration, 2, duration)}, **prev_to_drop)\n        y = trans(**{time: Slice(time, 1, even_duration, 2, duration)}, **curr_to_drop)\n", "R10.1", "sequential_sum_product")
fire("c10-scan-next-duration-floors", "C10", SUMPROD, "        duration = (duration + 1) // 2\n    return trans(**{time: 0})", "        duration = duration // 2\n    return trans(**{time: 0})", "R10.1", "sequential_sum_product")
silent("c10-s-scan-even-duration-by-subtraction", "C10", SUMPROD, "        even_duration = duration // 2 * 2\n", "        even_duration = duration - duration % 2\n")
fire("c10-segments-overlap-by-one", "C10", SUMPROD,
     "                    time, i * segment_length, (i + 1) * segment_length, 1, duration\n", "                    time, i * segment_length, (i + 1) * segment_length + 1, 1, duration\n", "R10.2", "mixed_sequential_sum_product")
fire("c10-remainder-variable-too-short", "C10", SUMPROD, "            Variable(time, Bint[1 + duration % num_segments]),\n", "            Variable(time, Bint[duration % num_segments]),\n", "R10.2", "mixed_sequential_sum_product")
fire("c10-naive-fold-roles-swapped", "C10", SUMPROD,
     "        y = factors.pop()(**prev_to_drop)\n        x = factors.pop()(**curr_to_drop)\n", "        y = factors.pop()(**curr_to_drop)\n        x = factors.pop()(**prev_to_drop)\n", "R10.3", "naive_sequential_sum_product")

# ---- C14 (claimed since round 8)
fire("c14-sample-decodes-front-to-back", "C14", TENSOR,
     "        for name, domain in reversed(list(event_inputs.items())):\n", "        for name, domain in list(event_inputs.items()):\n", "R14.4", "Tensor._sample")
fire("c14-sample-divides-before-taking-the-digit", "C14", TENSOR,
     "            point = Tensor(mod_sample % size, sb_inputs, size)\n            mod_sample = mod_sample // size\n", "            mod_sample = mod_sample // size\n            point = Tensor(mod_sample % size, sb_inputs, size)\n", "R14.4", "Tensor._sample")
fire("c14-sample-aligned-event-first", "C14", TENSOR,
     "        be_inputs = batch_inputs.copy()\n        be_inputs.update(event_inputs)\n", "        be_inputs = event_inputs.copy()\n        be_inputs.update(batch_inputs)\n", "R14.4", "Tensor._sample")
fire("c14-delta-plus-funsor-substitutes-every-point", "C14", DELTA,
     "                for name, (point, log_density) in lhs.terms\n                if name in rhs.inputs\n            }\n        )\n        return op(lhs, rhs)\n\n    return None  # defer to default implementation\n\n\n@eager.register(Binary, AddOp, (Funsor, Align), Delta)",
     "                for name, (point, log_density) in lhs.terms\n            }\n        )\n        return op(lhs, rhs)\n\n    return None  # defer to default implementation\n\n\n@eager.register(Binary, AddOp, (Funsor, Align), Delta)", "R14.2", "eager_add_delta_funsor")
fire("c14-subs-sample-forgets-the-key", "C14", TERMS,
     "        arg = self.arg._sample(subs_sampled_vars, sample_inputs, rng_key)\n", "        arg = self.arg._sample(subs_sampled_vars, sample_inputs, None)\n", "R14.5", "Subs._sample")
silent("c14-s-sample-digit-via-divmod-spelling", "C14", TENSOR,
       "            point = Tensor(mod_sample % size, sb_inputs, size)\n            mod_sample = mod_sample // size\n", "            digit = mod_sample % size\n            point = Tensor(digit, sb_inputs, size)\n            mod_sample = mod_sample // size\n")

fire("c10-lagged-slice-stops-one-early", "C10", SUMPROD,
     "        slice_t = Slice(time, t, duration - period + t + 1, period, duration)\n", "        slice_t = Slice(time, t, duration - period + t, period, duration)\n", "R10.4", "sarkka_bilmes_product")
fire("c10-lagged-remainder-shift-off-by-one", "C10", SUMPROD,
     "                _shift_funsor(trans(**{time: t}), remaining_duration - t, global_vars),\n", "                _shift_funsor(trans(**{time: t}), remaining_duration - t - 1, global_vars),\n", "R10.4", "sarkka_bilmes_product")
fire("c10-lagged-recursion-on-the-first-steps", "C10", SUMPROD,
     "                trans(**{time: Slice(time, remaining_duration, duration, 1, duration)}),\n", "                trans(**{time: Slice(time, 0, truncated_duration, 1, duration)}),\n", "R10.4", "sarkka_bilmes_product")
fire("c10-lagged-shift-back-by-period", "C10", SUMPROD,
     "            **{name: _shift_name(name, -remaining_duration) for name in result.inputs}\n", "            **{name: _shift_name(name, -remaining_duration + 1) for name in result.inputs}\n", "R10.4", "sarkka_bilmes_product")
fire("c10-lagged-factor-shift-by-t", "C10", SUMPROD,
     "        factor = _shift_funsor(trans, period - t - 1, global_vars)\n", "        factor = _shift_funsor(trans, period - t, global_vars)\n", "R10.4", "sarkka_bilmes_product")
silent("c10-s-lagged-truncated-from-floor", "C10", SUMPROD,
       "        truncated_duration = duration - remaining_duration\n", "        truncated_duration = duration // period * period\n")

fire("c19-align-event-tail-starts-at-zero", "C19", TENSOR,
     "            range(len(permutation), len(permutation) + len(self.output.shape))\n", "            range(len(self.output.shape))\n", "R19.8", "Tensor.align")
fire("c19-to-data-sizes-from-unpermuted-array", "C19", TENSOR,
     "        for dim, size in zip(dims, data.shape):\n", "        for dim, size in zip(dims, x.data.shape):\n", "R19.9", "tensor_to_data")
fire("c19-to-data-sizes-paired-with-unsorted-dims", "C19", TENSOR,
     "        for dim, size in zip(dims, data.shape):\n", "        for dim, size in zip(unsorted_dims, data.shape):\n", "R19.9", "tensor_to_data")

fire("c10-lagged-short-sequence-starts-one-step-early", "C10", SUMPROD,
     "            result = trans(**{time: remaining_duration - 1})\n            remaining_duration -= 1\n", "            remaining_duration -= 1\n            result = trans(**{time: remaining_duration - 1})\n", "R10.4", "sarkka_bilmes_product")
silent("c10-s-lagged-short-sequence-decrement-first-adjusted", "C10", SUMPROD,
       "            result = trans(**{time: remaining_duration - 1})\n            remaining_duration -= 1\n", "            remaining_duration -= 1\n            result = trans(**{time: remaining_duration})\n")

fire("c10-markov-absent-time-add-raised-to-power", "C10", SUMPROD, "        result = trans * time.size\n", "        result = trans**time.size\n", "R10.5", "eager_markov_product")
fire("c10-markov-plain-product-uses-sum-op", "C10", SUMPROD, "        result = trans.reduce(prod_op, time.name)\n", "        result = trans.reduce(sum_op, time.name)\n", "R10.5", "eager_markov_product")
fire("c10-markov-scan-ops-swapped", "C10", SUMPROD,
     "        result = sequential_sum_product(sum_op, prod_op, trans, time, dict(step))\n", "        result = sequential_sum_product(prod_op, sum_op, trans, time, dict(step))\n", "R10.5", "eager_markov_product")

# ---- C12 / C13 (claimed since round 9)
GAUSS = "funsor/gaussian.py"
fire("c12-offset-recorded-after-the-increment", "C12", GAUSS,
     "            offsets[key] = total\n            total += domain.num_elements\n", "            total += domain.num_elements\n            offsets[key] = total\n", "R12.1", "_compute_offsets")
fire("c12-split-start-not-advanced", "C12", GAUSS,
     "            (lhs_blocks if key in lhs_keys else rhs_blocks).append(slice(start, stop))\n            start = stop\n", "            (lhs_blocks if key in lhs_keys else rhs_blocks).append(slice(start, stop))\n", "R12.2", "_split_real_inputs")
fire("c12-split-sides-swapped", "C12", GAUSS,
     "            (lhs_blocks if key in lhs_keys else rhs_blocks).append(slice(start, stop))\n", "            (rhs_blocks if key in lhs_keys else lhs_blocks).append(slice(start, stop))\n", "R12.2", "_split_real_inputs")
fire("c12-gaussian-sum-factors-crossed", "C12", GAUSS,
     "    prec_sqrt = ops.cat([lhs_prec_sqrt, rhs_prec_sqrt], -1)\n    return Gaussian(white_vec, prec_sqrt, inputs)", "    prec_sqrt = ops.cat([rhs_prec_sqrt, lhs_prec_sqrt], -1)\n    return Gaussian(white_vec, prec_sqrt, inputs)", "R12.3", "eager_add_gaussian_gaussian")
fire("c12-gaussian-sum-concatenated-along-dim-axis", "C12", GAUSS,
     "    prec_sqrt = ops.cat([lhs_prec_sqrt, rhs_prec_sqrt], -1)\n    return Gaussian(white_vec, prec_sqrt, inputs)", "    prec_sqrt = ops.cat([lhs_prec_sqrt, rhs_prec_sqrt], -2)\n    return Gaussian(white_vec, prec_sqrt, inputs)", "R12.3", "eager_add_gaussian_gaussian")
fire("c13-marginalise-rows-swapped", "C13", GAUSS,
     "            b, a = _split_real_inputs(self.inputs, reduced_vars, self.white_vec)\n", "            a, b = _split_real_inputs(self.inputs, reduced_vars, self.white_vec)\n", "R13.2", "Gaussian.eager_reduce")
fire("c13-plate-fusion-rank-axis-before-reduced", "C13", GAUSS,
     "            perm = kept_perm + reduced_perm + [n]\n", "            perm = kept_perm + [n] + reduced_perm\n", "R13.3", "Gaussian.eager_reduce")
fire("c13-plate-fusion-keeps-one-axis-too-many", "C13", GAUSS,
     "            white_vec = white_vec.reshape(white_vec.shape[: len(kept_perm)] + (-1,))\n", "            white_vec = white_vec.reshape(white_vec.shape[: len(kept_perm) + 1] + (-1,))\n", "R13.3", "Gaussian.eager_reduce")
fire("c13-all-reals-marginalised-ignores-int-reduction", "C13", GAUSS,
     "                return self.log_normalizer.reduce(ops.logaddexp, reduced_ints)\n", "                return self.log_normalizer\n", "R13.1", "Gaussian.eager_reduce")

# ---- round 10: R12.8 - R12.10, R13.6 (skipped alignment), R13.8 - R13.10
INTEGRATE = "funsor/integrate.py"
fire("c12-subs-real-number-not-converted", "C12", GAUSS,
     "            (k, Tensor(ops.new_full(self.white_vec, (), v.data)))\n            if isinstance(v, Number)\n            else (k, v)\n", "            (k, v)\n", "R12.8", "_eager_subs_real")
silent("c12-s-subs-real-classification-tensors-only", "C12", GAUSS,
       "            if isinstance(v, (Number, Tensor))\n            if v.dtype == \"real\"\n", "            if isinstance(v, Tensor)\n            if v.dtype == \"real\"\n")
fire("c12-affine-coefficient-of-existing-input-dropped", "C12", GAUSS,
     "                if new_k in coeffs:\n                    coeff, eqn = coeffs[new_k]\n", "                if new_k in coeffs and new_k not in old_offsets:\n                    coeff, eqn = coeffs[new_k]\n", "R12.9", "_eager_subs_affine")
fire("c12-affine-coefficient-skipped-by-continue", "C12", GAUSS,
     "                if new_k in coeffs:\n                    coeff, eqn = coeffs[new_k]\n", "                if new_k in old_real_inputs:\n                    continue\n                if new_k in coeffs:\n                    coeff, eqn = coeffs[new_k]\n", "R12.9", "_eager_subs_affine")
silent("c12-s-affine-coefficient-guard-negated-continue", "C12", GAUSS,
       "                if new_k in coeffs:\n                    coeff, eqn = coeffs[new_k]\n", "                if new_k not in coeffs:\n                    continue\n                if True:\n                    coeff, eqn = coeffs[new_k]\n")
fire("c12-compress-gaussians-cholesky-route", "C12", GAUSS,
     "    white_vec, prec_sqrt, shift = _compress_rank(white_vec, prec_sqrt)\n    int_inputs", "    white_vec, prec_sqrt, shift = _compress_rank(white_vec, prec_sqrt, True)\n    int_inputs", "R12.10", "_compress_gaussians")
fire("c12-constructor-compression-cholesky-route", "C12", GAUSS,
     "            white_vec, prec_sqrt, shift = _compress_rank(white_vec, prec_sqrt)\n", "            white_vec, prec_sqrt, shift = _compress_rank(white_vec, prec_sqrt, assume_full_rank=True)\n", "R12.10")
silent("c12-s-compress-explicit-qr-route", "C12", GAUSS,
       "    white_vec, prec_sqrt, shift = _compress_rank(white_vec, prec_sqrt)\n    int_inputs", "    white_vec, prec_sqrt, shift = _compress_rank(white_vec, prec_sqrt, assume_full_rank=False)\n    int_inputs")
fire("c13-integrate-alignment-skipped-on-equal-key-sets", "C13", INTEGRATE,
     "            rhs_white_vec, rhs_prec_sqrt = align_gaussian(inputs, integrand)\n",
     "            if set(integrand.inputs) == set(inputs):\n                rhs_white_vec, rhs_prec_sqrt = integrand.white_vec, integrand.prec_sqrt\n            else:\n                rhs_white_vec, rhs_prec_sqrt = align_gaussian(inputs, integrand)\n",
     "R13.6", "eager_integrate_gaussian_gaussian")
silent("c13-s-integrate-alignment-skipped-on-equal-ordered-inputs", "C13", INTEGRATE,
       "            rhs_white_vec, rhs_prec_sqrt = align_gaussian(inputs, integrand)\n",
       "            if integrand.inputs == log_measure.inputs:\n                rhs_white_vec, rhs_prec_sqrt = integrand.white_vec, integrand.prec_sqrt\n            else:\n                rhs_white_vec, rhs_prec_sqrt = align_gaussian(inputs, integrand)\n")
fire("c13-mixture-integral-pushed-down-with-integer-variables", "C13", INTEGRATE,
     "    if reduced_vars <= real_vars:\n        discrete, gaussian", "    if real_vars <= reduced_vars:\n        discrete, gaussian", "R13.8", "eager_integrate_gaussianmixture")
fire("c13-mixture-integral-pushed-down-when-any-real", "C13", INTEGRATE,
     "    if reduced_vars <= real_vars:\n        discrete, gaussian", "    if real_vars:\n        discrete, gaussian", "R13.8", "eager_integrate_gaussianmixture")
silent("c13-s-mixture-integral-guard-as-difference", "C13", INTEGRATE,
       "    if reduced_vars <= real_vars:\n        discrete, gaussian", "    if not (reduced_vars - real_vars):\n        discrete, gaussian")
fire("c13-integrate-result-drops-all-reduced-names", "C13", INTEGRATE,
     "            inputs = OrderedDict((k, d) for k, d in inputs.items() if k not in real_vars)\n", "            inputs = OrderedDict((k, d) for k, d in inputs.items() if k not in reduced_names)\n", "R13.9", "eager_integrate_gaussian_gaussian")
fire("c13-integrate-variable-result-keeps-real-inputs", "C13", INTEGRATE,
     "            (k, d) for k, d in log_measure.inputs.items() if d.dtype != \"real\"\n        )\n        result = Tensor(data, inputs)", "            (k, d) for k, d in log_measure.inputs.items() if k not in reduced_vars\n        )\n        result = Tensor(data, inputs)", "R13.9", "eager_integrate_gaussian_variable")
silent("c13-s-integrate-result-filters-by-dtype", "C13", INTEGRATE,
       "            inputs = OrderedDict((k, d) for k, d in inputs.items() if k not in real_vars)\n", "            inputs = OrderedDict((k, d) for k, d in inputs.items() if d.dtype != \"real\")\n")
fire("c13-integrate-measure-aligned-without-expand", "C13", INTEGRATE,
     "            lhs_white_vec, lhs_prec_sqrt = align_gaussian(\n                inputs, log_measure, expand=True\n            )\n", "            lhs_white_vec, lhs_prec_sqrt = align_gaussian(inputs, log_measure)\n", "R13.10", "eager_integrate_gaussian_gaussian")

fire("c10-naive-fold-pairs-sorted-independently", "C10", SUMPROD,
     "    prev_to_drop = dict(zip(step.keys(), drop))\n    curr_to_drop = dict(zip(step.values(), drop))\n    drop = frozenset(drop)\n",
     "    prev_to_drop = dict(zip(sorted(step.keys()), drop))\n    curr_to_drop = dict(zip(sorted(step.values()), drop))\n    drop = frozenset(drop)\n", "R10.7", "naive_sequential_sum_product")
silent("c10-s-naive-fold-keys-by-iteration", "C10", SUMPROD,
       "    prev_to_drop = dict(zip(step.keys(), drop))\n    curr_to_drop = dict(zip(step.values(), drop))\n    drop = frozenset(drop)\n",
       "    prev_to_drop = dict(zip(step, drop))\n    curr_to_drop = dict(zip([v for k, v in step.items()], drop))\n    drop = frozenset(drop)\n")

# ---- round 11: R09.10, R13.7 (guard), R13.11, R13.12, R14.7 - R14.10, R19.4 (scalar inputs only)
EINSUM = "funsor/einsum/__init__.py"
DELTA = "funsor/delta.py"
TENSOR_ = "funsor/tensor.py"
fire("c09-plated-einsum-delegates-after-popping-backend", "C09", EINSUM,
     "    output_plates = output_dims & frozenset(plates)\n", "    if not plate_dims:\n        return naive_einsum(eqn, *terms, **kwargs)\n    output_plates = output_dims & frozenset(plates)\n", "R09.10", "naive_plated_einsum")
silent("c09-s-plated-einsum-delegates-with-explicit-backend", "C09", EINSUM,
       "    output_plates = output_dims & frozenset(plates)\n", "    if not plate_dims:\n        return naive_einsum(eqn, *terms, backend=backend, **kwargs)\n    output_plates = output_dims & frozenset(plates)\n")
fire("c13-marginalisation-guard-uses-kept-block", "C13", GAUSS,
     "            dim_b = prec_sqrt_b.shape[-2]\n", "            dim_b = prec_sqrt_a.shape[-2]\n", "R13.7", "Gaussian.eager_reduce")
fire("c13-distribute-integrate-drops-the-sign", "C13", INTEGRATE,
     "                -Integrate(log_measure, term.arg, reduced_vars)\n", "                Integrate(log_measure, term.arg, reduced_vars)\n", "R13.11", "eager_distribute_integrate")
fire("c13-integrate-neg-gaussian-drops-the-sign", "C13", INTEGRATE,
     "    return -Integrate(log_measure, integrand.arg, reduced_vars)\n", "    return Integrate(log_measure, integrand.arg, reduced_vars)\n", "R13.11", "eager_integrate_neg_gaussian")
silent("c13-s-integrate-neg-gaussian-via-ops-neg", "C13", INTEGRATE,
       "    return -Integrate(log_measure, integrand.arg, reduced_vars)\n", "    return ops.neg(Integrate(log_measure, integrand.arg, reduced_vars))\n")
fire("c13-mixture-integral-ignores-the-mixtures-own-reduction", "C13", INTEGRATE,
     "        result = discrete.exp() * Integrate(gaussian, integrand, reduced_vars)\n        # The measure may itself be a mixture summed over some of its inputs.\n        return result.reduce(ops.add, log_measure.reduced_vars)\n",
     "        return discrete.exp() * Integrate(gaussian, integrand, reduced_vars)\n", "R13.12", "eager_integrate_gaussianmixture")
fire("c14-sample-global-max", "C14", TENSOR_,
     "            logit_max = np.amax(flat_logits, -1, keepdims=True)\n", "            logit_max = np.amax(flat_logits)\n", "R14.7", "Tensor._sample")
silent("c14-s-sample-max-axis-keyword", "C14", TENSOR_,
       "            logit_max = np.amax(flat_logits, -1, keepdims=True)\n", "            logit_max = np.amax(flat_logits, axis=-1, keepdims=True)\n")
fire("c14-delta-plus-delta-one-orientation-only", "C14", DELTA,
     "    if lhs.fresh.intersection(rhs.inputs):\n        return eager_add_delta_funsor(op, lhs, rhs)\n\n    if rhs.fresh", "    if rhs.fresh", "R14.8", "eager_add_multidelta")
fire("c14-delta-reduce-rest-with-add", "C14", DELTA,
     "            return result.reduce(op, reduced_vars - self.fresh)\n", "            return result.reduce(ops.add, reduced_vars - self.fresh)\n", "R14.9", "Delta.eager_reduce")
fire("c14-astype-without-scalar-implementation", "C14", "funsor/ops/array.py",
     "    if isinstance(x, numbers.Number):\n        # Python scalars, e.g. the bool obtained by comparing two Numbers.\n        return np.dtype(dtype).type(x).item()\n    raise NotImplementedError\n\n\n@astype.register(array)",
     "    raise NotImplementedError\n\n\n@astype.register(array)", "R14.10", "Delta.eager_subs")
fire("c19-materialize-array-valued-integer-inputs", "C19", TENSOR_,
     "            if isinstance(domain.dtype, int) and not domain.shape:\n", "            if isinstance(domain.dtype, int):\n", "R19.4", "Tensor.materialize")
silent("c19-s-materialize-scalar-test-as-len", "C19", TENSOR_,
       "            if isinstance(domain.dtype, int) and not domain.shape:\n", "            if isinstance(domain.dtype, int) and len(domain.shape) == 0:\n")

# ---- round 12: R10.1 odd-tail guard, R10.8, R12.3 returns, R12.11, R12.12, R13.13 - R13.15, R14.11 - R14.13, R06.3 methods
MONTECARLO = "funsor/montecarlo.py"
fire("c10-odd-tail-only-for-time-dependent-transitions", "C10", SUMPROD,
     "        if duration > even_duration:\n            extra = trans(", "        if duration > even_duration and time in trans.inputs:\n            extra = trans(", "R10.1", "sequential_sum_product")
silent("c10-s-odd-tail-guard-as-parity", "C10", SUMPROD,
       "        if duration > even_duration:\n            extra = trans(", "        if duration % 2 == 1:\n            extra = trans(")
fire("c10-pairwise-recursion-counts-at-least-two", "C10", CNF,
     "    reduced_twice = frozenset(v for v, count in counts.items() if count == 2)", "    reduced_twice = frozenset(v for v, count in counts.items() if count >= 2)", "R10.8", "eager_contraction_generic_recursive")
fire("c12-gaussian-plus-itself-rescales-one-factor", "C12", GAUSS,
     "    # Align data.\n    inputs = lhs.inputs.copy()\n", "    if lhs is rhs:\n        return Gaussian(lhs.white_vec, lhs.prec_sqrt * math.sqrt(2), lhs.inputs)\n    # Align data.\n    inputs = lhs.inputs.copy()\n", "R12.3", "eager_add_gaussian_gaussian")
silent("c12-s-gaussian-plus-itself-rescales-both-factors", "C12", GAUSS,
       "    # Align data.\n    inputs = lhs.inputs.copy()\n", "    if lhs is rhs:\n        return Gaussian(lhs.white_vec * math.sqrt(2), lhs.prec_sqrt * math.sqrt(2), lhs.inputs)\n    # Align data.\n    inputs = lhs.inputs.copy()\n")
fire("c12-affine-product-rule-subtracts-affine-inputs", "C12", "funsor/affine.py",
     "        lhs_affine = affine_inputs(fn.lhs) - _real_inputs(fn.rhs)\n", "        lhs_affine = affine_inputs(fn.lhs) - affine_inputs(fn.rhs)\n", "R12.11")
fire("c12-substituted-values-gathered-in-pair-order", "C12", GAUSS,
     "        value_b = ops.cat([values[k] for k, i in slices if k in b], -1)\n", "        value_b = ops.cat([v for k, v in values.items() if k in b], -1)\n", "R12.12", "_eager_subs_real")
fire("c13-marginalize-helper-overwrites-normaliser", "C13", GAUSS,
     "            prec_sqrt = ops.new_zeros(self.white_vec, batch_shape + (dim_b, 0))\n            result += Gaussian(white_vec, prec_sqrt, inputs)\n",
     "            prec_sqrt = ops.new_zeros(self.white_vec, batch_shape + (dim_b, 0))\n            result = Gaussian(white_vec, prec_sqrt, inputs)\n", "R13.13", "_marginalize_after_split")
silent("c13-s-marginalize-helper-adds-explicitly", "C13", GAUSS,
       "            prec_sqrt = ops.new_zeros(self.white_vec, batch_shape + (dim_b, 0))\n            result += Gaussian(white_vec, prec_sqrt, inputs)\n",
       "            prec_sqrt = ops.new_zeros(self.white_vec, batch_shape + (dim_b, 0))\n            result = result + Gaussian(white_vec, prec_sqrt, inputs)\n")
fire("c14-marginalize-helper-overwrites-normaliser", "C14", GAUSS,
     "            prec_sqrt = ops.new_zeros(self.white_vec, batch_shape + (dim_b, 0))\n            result += Gaussian(white_vec, prec_sqrt, inputs)\n",
     "            prec_sqrt = ops.new_zeros(self.white_vec, batch_shape + (dim_b, 0))\n            result = Gaussian(white_vec, prec_sqrt, inputs)\n", "R14.12", "_marginalize_after_split")
fire("c13-integrate-variable-mass-from-determinant", "C13", INTEGRATE,
     "        data = loc * ops.unsqueeze(ops.exp(log_measure._log_normalizer), -1)\n",
     "        log_det = ops.log(ops.diagonal(log_measure._precision_chol, -1, -2)).sum(-1)\n        data = loc * ops.unsqueeze(ops.exp(0.9189385332046727 * loc.shape[-1] - log_det), -1)\n", "R13.14", "eager_integrate_gaussian_variable")
fire("c14-mixture-sample-draws-from-unweighted-discrete", "C14", CNF,
     "                    terms.append(term._sample(greedy_vars, sample_inputs, rng_keys[0]))\n                    result = Contraction(\n                        self.red_op, self.bin_op, self.reduced_vars, *terms\n                    )\n                elif any(",
     "                    terms.append(discrete._sample(greedy_vars, sample_inputs, rng_keys[0]))\n                    result = Contraction(\n                        self.red_op, self.bin_op, self.reduced_vars, *terms\n                    )\n                elif any(", "R14.11", "Contraction._sample")
fire("c14-monte-carlo-weight-roles-swapped", "C14", MONTECARLO,
     "    result = sample + model - guide\n", "    result = sample + guide - model\n", "R14.13", "monte_carlo_approximate")
silent("c14-s-monte-carlo-weight-reassociated", "C14", MONTECARLO,
       "    result = sample + model - guide\n", "    result = model - guide + sample\n")
fire("c06-number-unary-real-fast-path", "C06", TERMS,
     "    def eager_unary(self, op):\n        dtype = find_domain(op, self.output).dtype\n        return Number(op(self.data), dtype)\n",
     "    def eager_unary(self, op):\n        if self.dtype == \"real\":\n            return Number(op(self.data))\n        dtype = find_domain(op, self.output).dtype\n        return Number(op(self.data), dtype)\n", "R06.3", "Number.eager_unary")

fire("c06-new-shape-changing-op-without-typing-rule", "C06", ARRAY,
     "@UnaryOp.make\ndef isnan(x):\n    return np.isnan(x)\n", "@UnaryOp.make\ndef isnan(x):\n    return np.isnan(x)\n\n\n@UnaryOp.make\ndef squeeze_first(x):\n    return np.squeeze(x, 0)\n", "R06.20", "squeeze_first")
silent("c06-s-new-elementwise-op-without-typing-rule", "C06", ARRAY,
       "@UnaryOp.make\ndef isnan(x):\n    return np.isnan(x)\n", "@UnaryOp.make\ndef isnan(x):\n    return np.isnan(x)\n\n\n@UnaryOp.make\ndef signum(x):\n    return np.sign(x)\n")
fire("c06-reshape-typing-rule-removed", "C06", "funsor/domains.py",
     "@find_domain.register(ops.ReshapeOp)\n", "", "R06.20", "reshape")

fire("c16-issubclass-fallback-on-raw-argument", "C16", "funsor/typing.py",
     "        if not isinstance(subcls, type):\n            subcls = get_origin(subcls) or subcls\n        return issubclass(subcls, cls)\n", "        return issubclass(subcls, cls)\n", "R16.16", "deep_issubclass")
silent("c16-s-issubclass-fallback-unwrapped-inline", "C16", "funsor/typing.py",
       "        if not isinstance(subcls, type):\n            subcls = get_origin(subcls) or subcls\n        return issubclass(subcls, cls)\n",
       "        return issubclass(subcls if isinstance(subcls, type) else (get_origin(subcls) or subcls), cls)\n")

fire("c18-trace-record-mixes-raw-positionals-with-bound-kwargs", "C18", OP,
     "                op = cls(*args[cls.arity :], **kwargs)\n", "                op = cls(*raw_args[cls.arity :], **kwargs)\n", "R18.7", "Op.__call__")
silent("c18-s-trace-record-from-bound-arguments-directly", "C18", OP,
       "                op = cls(*args[cls.arity :], **kwargs)\n", "                op = cls(*bound.args[cls.arity :], **bound.kwargs)\n")

fire("c11-scatter-drops-reduced-batch-inputs-without-reducing", "C11", TENSOR_,
     "    if plain_vars:\n        source = source.reduce(op, plain_vars)\n        reduced_vars = reduced_vars - plain_vars\n", "", "R11.17", "eager_scatter_tensor")

V.append(dict(id="c06-new-python-operator-op-without-typing-rule", prop="C06", kind="fire", expect_rule="R06.21", expect_in="shl",
              edits=[("funsor/ops/builtin.py", "lshift = BinaryOp.make(operator.lshift)\n", "lshift = BinaryOp.make(operator.lshift)\nshl = BinaryOp.make(operator.lshift)\n"),
                     ("funsor/ops/builtin.py", '    "lshift",\n', '    "lshift",\n    "shl",\n')]))
silent("c06-s-sub-gets-a-typing-rule-of-its-own", "C06", "funsor/domains.py", "<<EOF>>",
       "\n\n@find_domain.register(ops.SubOp)\ndef _find_domain_sub(op, lhs, rhs):\n    if lhs.dtype == \"real\" and rhs.dtype == \"real\":\n        return Array[\"real\", broadcast_shape(lhs.shape, rhs.shape)]\n    raise NotImplementedError(\"TODO\")\n")

# ---- round 14 (compact: C09 C10 C12 C14 C19)
fire("c09-r14-plate-scales-added", "C09", "funsor/sum_product.py",
     "                        scale = reduce(ops.mul, f_scales)\n                        f = pow_op(f, scale)\n                results.append(f)\n",
     "                        scale = reduce(ops.add, f_scales)\n                        f = pow_op(f, scale)\n                results.append(f)\n", "R09.4", "partial_sum_product")
fire("c09-r14-partition-members-in-a-set", "C09", "funsor/sum_product.py",
     "        component_terms = tuple(terms[v] for v in component if isinstance(v, int))\n",
     "        members = set(terms[v] for v in component if isinstance(v, int))\n        component_terms = tuple(term for term in terms if term in members)\n", "R09.9", "_partition")
silent("c09-r14-s-partition-positions-sorted", "C09", "funsor/sum_product.py",
     "        component_terms = tuple(terms[v] for v in component if isinstance(v, int))\n",
     "        positions = sorted(v for v in component if isinstance(v, int))\n        component_terms = tuple(terms[v] for v in positions)\n")
fire("c14-r14-delta-subs-last-term-wins", "C14", "funsor/delta.py",
     "                    log_densities.append(is_equal.log() + log_density)\n",
     "                    log_densities = [is_equal.log() + log_density]\n", "R14.14", "eager_subs")
silent("c14-r14-s-delta-subs-running-sum", "C14", "funsor/delta.py",
     "                    log_densities.append(is_equal.log() + log_density)\n",
     "                    log_densities = log_densities + [is_equal.log() + log_density]\n")
fire("c10-r14-remainder-only-with-time-input", "C10", "funsor/sum_product.py",
     "    if duration % num_segments and duration - duration % num_segments > 0:\n",
     "    if time in trans.inputs and duration % num_segments and duration - duration % num_segments > 0:\n", "R10.2", "mixed_sequential_sum_product")
silent("c10-r14-s-remainder-test-reordered", "C10", "funsor/sum_product.py",
     "    if duration % num_segments and duration - duration % num_segments > 0:\n",
     "    if duration - duration % num_segments > 0 and duration % num_segments != 0:\n")

fire("c19-r14-tensor-align-drops-dtype", "C19", "funsor/tensor.py",
     "        data = ops.permute(self.data, permutation)\n        return Tensor(data, inputs, self.dtype)\n",
     "        data = ops.permute(self.data, permutation)\n        return Tensor(data, inputs)\n", "R19.12", "align")
silent("c19-r14-s-tensor-align-dtype-by-keyword", "C19", "funsor/tensor.py",
     "        data = ops.permute(self.data, permutation)\n        return Tensor(data, inputs, self.dtype)\n",
     "        data = ops.permute(self.data, permutation)\n        return Tensor(data, inputs, dtype=self.dtype)\n")
fire("c19-r14-contraction-align-fallback-needs-no-progress", "C19", "funsor/cnf.py",
     "        if not names == tuple(result.inputs):\n",
     "        if not names == tuple(result.inputs) and result.inputs == self.inputs:\n", "R19.13", "align")
silent("c19-r14-s-contraction-align-fallback-neq", "C19", "funsor/cnf.py",
     "        if not names == tuple(result.inputs):\n",
     "        if tuple(result.inputs) != names:\n")

silent("c14-r14-s-delta-subs-loop-invariant-carried", "C14", "funsor/delta.py",
     "                    log_densities.append(is_equal.log() + log_density)\n",
     "                    log_densities.append(is_equal.log() + log_density)\n                    seen_dtype = get_default_dtype()\n", )

# ===== derived variants: must stay at the END of this file (they enumerate every rename() variant above) =====
# `if c: A else: B` -> `if not c: B else: A` in the anchor functions (behaviour-preserving)
def invert(prop, file, qual):
    V.append(dict(id=f"{prop.lower()}-s-invert-ifs:{qual}", prop=prop, kind="silent", transform=("invert_ifs", file, qual)))

# `return EXPR` -> `_ret = EXPR; return _ret` in the anchor functions (behaviour-preserving)
for _v in list(V):
    if _v.get("transform") and _v["transform"][0] == "rename_locals":
        V.append(dict(id=f"{_v['prop'].lower()}-s-return-via-temp:{_v['transform'][2]}", prop=_v["prop"], kind="silent",
                      transform=("return_via_temp", _v["transform"][1], _v["transform"][2])))

# `if c: return X` + rest  ->  `if c: return X else: rest` in the anchor functions (behaviour-preserving)
for _v in list(V):
    if _v.get("transform") and _v["transform"][0] == "rename_locals":
        V.append(dict(id=f"{_v['prop'].lower()}-s-else-after-return:{_v['transform'][2]}", prop=_v["prop"], kind="silent",
                      transform=("else_after_return", _v["transform"][1], _v["transform"][2])))

for _v in list(V):
    if _v.get("transform") and _v["transform"][0] == "rename_locals":
        invert(_v["prop"], _v["transform"][1], _v["transform"][2])

# every local of every top-level function / method of the whole package renamed at once
for _p in ("C01", "C02", "C03", "C04", "C05", "C06", "C07", "C08", "C09", "C10", "C11", "C12", "C13", "C14", "C15", "C16", "C17", "C18", "C19", "C20"):
    V.append(dict(id=f"{_p.lower()}-s-rename-all-locals", prop=_p, kind="silent", transform=("rename_all_locals", "", "")))
    for _t in ("invert_all_ifs", "all_returns_via_temp", "all_else_after_return"):
        V.append(dict(id=f"{_p.lower()}-s-{_t.replace('_', '-')}", prop=_p, kind="silent", transform=(_t, "", "")))
