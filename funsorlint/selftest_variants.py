"""Variant corpus for `python -m funsorlint selftest` (see selftest.py).

Each variant: id, prop, kind ('fire' default | 'silent'), file/old/new (exact source text, must occur exactly once unless
`count`/`nth` say otherwise; old == '<<EOF>>' appends), expect_rule and expect_in (substring of the reported construct,
detail or location) for must-fire variants.  Edits are chosen to keep the package importable and, for must-fire variants,
to break exactly one structural fact; silent variants are behaviour-preserving refactors.
"""

V = VARIANTS = []


def fire(id, prop, file, old, new, rule=None, within=None, **kw):
    V.append(dict(id=id, prop=prop, kind="fire", file=file, old=old, new=new, expect_rule=rule, expect_in=within, **kw))


def silent(id, prop, file, old, new, **kw):
    V.append(dict(id=id, prop=prop, kind="silent", file=file, old=old, new=new, **kw))


INTERP = "funsor/interpretations.py"
INTERPRETER = "funsor/interpreter.py"
TERMS = "funsor/terms.py"
ADJOINT = "funsor/adjoint.py"

# ----------------------------------------------------------------------------------------------------------------- C17
fire("c17-exit-no-pop", "C17", INTERP,
     "    def __exit__(self, *args):\n        pop_interpretation()\n",
     "    def __exit__(self, *args):\n        pass\n", "R17.3", "__exit__")
fire("c17-exit-pop-only-on-normal-exit", "C17", INTERP,
     "    def __exit__(self, *args):\n        pop_interpretation()\n",
     "    def __exit__(self, *args):\n        if args[0] is None:\n            pop_interpretation()\n", "R17.3", "__exit__")
silent("c17-s-exit-returns-true", "C17", INTERP,  # swallows exceptions, but the stack still unwinds: not a C17 violation
       "    def __exit__(self, *args):\n        pop_interpretation()\n",
       "    def __exit__(self, *args):\n        pop_interpretation()\n        return True\n")
fire("c17-exit-swallows-in-try", "C17", INTERP,
     "    def __exit__(self, *args):\n        pop_interpretation()\n",
     "    def __exit__(self, *args):\n        try:\n            self.cleanup()\n            pop_interpretation()\n        except Exception:\n            pass\n",
     "R17.3", "__exit__")
fire("c17-enter-double-push", "C17", INTERP,
     "        push_interpretation(new)\n        return self\n",
     "        push_interpretation(new)\n        push_interpretation(new)\n        return self\n", "R17.3", "__enter__")
fire("c17-enter-push-only-if-partial", "C17", INTERP,
     "            new = PrioritizedInterpretation(new, get_interpretation())\n        push_interpretation(new)\n",
     "            new = PrioritizedInterpretation(new, get_interpretation())\n            push_interpretation(new)\n",
     "R17.3", "__enter__")
fire("c17-priority-swapped", "C17", INTERP,
     "new = PrioritizedInterpretation(new, get_interpretation())",
     "new = PrioritizedInterpretation(get_interpretation(), new)", "R17.5")
fire("c17-prioritized-reversed-iteration", "C17", INTERP,
     "        for s in self._subinterpretations:\n            result = s.interpret(cls, *args)",
     "        for s in reversed(self._subinterpretations):\n            result = s.interpret(cls, *args)", "R17.5")
fire("c17-prioritized-flatten-reversed", "C17", INTERP,
     "            ss for s in subinterpretations for ss in s.subinterpretations\n",
     "            ss for s in reversed(subinterpretations) for ss in s.subinterpretations\n", "R17.5")
fire("c17-foreign-stack-write", "C17", TERMS, "<<EOF>>",
     "\n\ndef _reset_interpretation_stack():\n    del interpreter._STACK[2:]\n", "R17.1", "_reset_interpretation_stack")
fire("c17-foreign-stack-alias-append", "C17", "funsor/optimizer.py", "<<EOF>>",
     "\n\ndef _force(interp):\n    from funsor.interpreter import _STACK as stack\n    stack.append(interp)\n", "R17.1")
fire("c17-pop-with-index", "C17", INTERPRETER, "    return _STACK.pop()\n", "    return _STACK.pop(0)\n", "R17.1")
fire("c17-push-inserts-below-top", "C17", INTERPRETER, "    _STACK.append(new)\n", "    _STACK.insert(-1, new)\n", "R17.1")
fire("c17-default-is-lazy", "C17", INTERP,
     "push_interpretation(eager)  # Use eager interpretation by default.",
     "push_interpretation(lazy)  # Use eager interpretation by default.", "R17.2")
fire("c17-default-popped-at-import", "C17", INTERP,
     "push_interpretation(eager)  # Use eager interpretation by default.",
     "push_interpretation(eager)  # Use eager interpretation by default.\npop_interpretation()", "R17.2")
fire("c17-adjoint-enter-no-super", "C17", ADJOINT,
     "        self._old_interpretation = interpreter.get_interpretation()\n        return super().__enter__()\n",
     "        self._old_interpretation = interpreter.get_interpretation()\n        return self\n", "R17.4", "AdjointTape")
fire("c17-adjoint-enter-work-after-super", "C17", ADJOINT,
     "        self.tape = []\n        self._old_interpretation = interpreter.get_interpretation()\n        return super().__enter__()\n",
     "        result = super().__enter__()\n        self.tape = []\n        self._old_interpretation = interpreter.get_interpretation()\n        return result\n",
     None, "AdjointTape")
fire("c17-subclass-exit-skips-super-on-error", "C17", INTERP,
     "    @property\n    def is_total(self):\n        return self.base_interpretation.is_total\n\n    def interpret(self, cls, *args):\n        key = (cls,)",
     "    @property\n    def is_total(self):\n        return self.base_interpretation.is_total\n\n    def __exit__(self, exc_type, exc, tb):\n        if exc_type is None:\n            return super().__exit__(exc_type, exc, tb)\n\n    def interpret(self, cls, *args):\n        key = (cls,)",
     "R17.4", "Memoize")
fire("c17-explicit-enter-call", "C17", "funsor/optimizer.py",
     "    with unfold:\n        expr = interpreter.reinterpret(x)\n",
     "    unfold.__enter__()\n    expr = interpreter.reinterpret(x)\n    unfold.__exit__(None, None, None)\n", "R17.6")
fire("c17-generator-yields-inside-with", "C17", "funsor/optimizer.py", "<<EOF>>",
     "\n\ndef lazily_optimized(xs):\n    with optimize:\n        for x in xs:\n            yield interpreter.reinterpret(x)\n", "R17.7", "lazily_optimized")
fire("c17-memoize-yield-outside-with", "C17", INTERP,
     "    with Memoize(base_interpretation, cache) as interp:\n        yield interp.cache\n",
     "    interp = Memoize(base_interpretation, cache)\n    interp.__enter__()\n    yield interp.cache\n    interp.__exit__(None, None, None)\n",
     None, "memoize")
silent("c17-s-exit-named-args", "C17", INTERP,
       "    def __exit__(self, *args):\n        pop_interpretation()\n",
       "    def __exit__(self, exc_type, exc_value, traceback):\n        pop_interpretation()\n        return None\n")
silent("c17-s-enter-if-else", "C17", INTERP,
       "        new = self\n        if not self.is_total:\n            new = PrioritizedInterpretation(new, get_interpretation())\n        push_interpretation(new)\n",
       "        if self.is_total:\n            new = self\n        else:\n            new = PrioritizedInterpretation(self, get_interpretation())\n        push_interpretation(new)\n")
silent("c17-s-new-with-site", "C17", "funsor/optimizer.py", "<<EOF>>",
       "\n\ndef optimized_twice(x):\n    with optimize:\n        with unfold:\n            return interpreter.reinterpret(x)\n")
silent("c17-s-subclass-exit-super-in-finally", "C17", INTERP,
       "    @property\n    def is_total(self):\n        return self.base_interpretation.is_total\n\n    def interpret(self, cls, *args):\n        key = (cls,)",
       "    @property\n    def is_total(self):\n        return self.base_interpretation.is_total\n\n    def __exit__(self, *args):\n        try:\n            self.cache_hits = 0\n        finally:\n            super().__exit__(*args)\n\n    def interpret(self, cls, *args):\n        key = (cls,)")
silent("c17-s-stack-read-elsewhere", "C17", TERMS, "<<EOF>>",
       "\n\ndef _interpretation_depth():\n    return len(interpreter._STACK)\n")
silent("c17-s-prioritized-next-generator", "C17", INTERP,
       "        for s in self._subinterpretations:\n            result = s.interpret(cls, *args)\n            if result is not None:\n                return result\n",
       "        for sub in self._subinterpretations:\n            out = sub.interpret(cls, *args)\n            if out is not None:\n                return out\n        return None\n")
