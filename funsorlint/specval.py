"""Abstract interpretation of numeric kernels over the IEEE special-value domain.

Decides, from source, the clause of C15 that speaks about limits: "logaddexp, logsumexp and the log-space einsum return the
exact limit when operands are minus infinity ..., and the safe subtraction, division and reciprocal never produce NaN".

Abstract value of a number (a Python scalar, or every element of an array - arrays are analysed element-wise, shapes are
ignored):  a set of classes

    NINF  FMIN  NEG  ZERO  POS  FMAX  PINF  NAN        (FMIN / FMAX = most negative / largest finite float)

Transfer functions are not written by hand: every class has representative floats (NEG = -3, -1, -0.25; POS = 0.25, 1, 3; ...)
and an operation on classes is the set of classes of its results on all representative combinations, computed with the host's
IEEE arithmetic (the analyser's own arithmetic - no repository code runs).  Overflow/underflow of *finite* values is not
modelled (3 * FMAX is the only exception, it is representable); the domain captures the algebra of +-inf, 0 and NaN, which is
what the property's "minus infinity" and "never NaN" clauses are about.

The interpreter executes a function body on abstract arguments: assignments, augmented assignments, if / if-expressions
(with refinement of a name compared against a constant), for / while (to a fixpoint; the pool is finite), with, try, return.
Calls are resolved through the analyser's name resolution: numpy / math / torch / jax.numpy functions and array methods are
intrinsics; ops of the package are dispatched the way the program does it - on Python scalars the op's default implementation,
on arrays the implementation registered for the array type of the backend under analysis - and their bodies are interpreted
recursively.  Anything else is `opaque`; an opaque result makes the obligation `unresolved`, never a violation.
"""
from __future__ import annotations

import ast
import itertools
import math
import sys
from typing import Dict, FrozenSet, List, Optional, Tuple

from .catalogue import Catalogue, OpInfo
from .model import Func, Program, norm
from .rules.common import Refs

NINF, FMIN, NEG, ZERO, POS, FMAX, PINF, NAN = "NINF", "FMIN", "NEG", "ZERO", "POS", "FMAX", "PINF", "NAN"
_FM = sys.float_info.max
REPS = {NINF: [-math.inf], FMIN: [-_FM], NEG: [-3.0, -1.0, -0.25], ZERO: [0.0], POS: [0.25, 1.0, 3.0], FMAX: [_FM], PINF: [math.inf], NAN: [math.nan]}
FINITE = frozenset({FMIN, NEG, ZERO, POS, FMAX})
LOGDOM = frozenset({NINF, NEG, ZERO, POS})  # "minus infinity or finite"
ORDER = [NINF, FMIN, NEG, ZERO, POS, FMAX, PINF, NAN]


def classify(r) -> str:
    if isinstance(r, bool):
        r = float(r)
    if r != r:
        return NAN
    if r == math.inf:
        return PINF
    if r == -math.inf:
        return NINF
    if r == 0:
        return ZERO
    if r <= -1e300:
        return FMIN
    if r >= 1e300:
        return FMAX
    return NEG if r < 0 else POS


class V:
    """abstract value"""
    __slots__ = ("kind", "cls", "arr", "items", "vid", "ub")
    _counter = [0]

    def __init__(self, kind, cls=frozenset(), arr=False, items=None, ub=frozenset()):
        self.kind = kind  # num | bool | none | finfo | opaque | seq | str | mask | raise
        self.cls = frozenset(cls)  # num: classes; bool: {True, False}
        self.arr = arr  # num/bool: is it an array (element-wise) or a Python scalar
        self.items = items  # seq: list of V ; mask: dict class -> frozenset(bool)
        V._counter[0] += 1
        self.vid = V._counter[0]  # identity of the abstract value
        self.ub = frozenset(ub)  # ids of values this one is an element-wise upper bound of (the one relational fact tracked)

    def bounds(self, other: "V") -> bool:
        return other.vid == self.vid or other.vid in self.ub

    def __repr__(self):
        if self.kind == "num":
            return ("array" if self.arr else "scalar") + "{" + ",".join(c for c in ORDER if c in self.cls) + "}"
        if self.kind == "bool":
            return "bool{" + ",".join(map(str, sorted(self.cls))) + "}"
        return self.kind


def num(cls, arr=False, ub=frozenset()):
    return V("num", cls, arr, ub=ub)


def upper_of(*vs: V) -> FrozenSet[int]:
    out = set()
    for v in vs:
        if v is not None and v.kind == "num":
            out |= v.ub | {v.vid}
    return frozenset(out)


OPAQUE = V("opaque")
NONE = V("none")


def join(a: Optional[V], b: Optional[V]) -> Optional[V]:
    if a is None:
        return b
    if b is None:
        return a
    if a is b:
        return a
    if a.kind == b.kind == "num":
        return V("num", a.cls | b.cls, a.arr or b.arr, ub=(a.ub | {a.vid}) & (b.ub | {b.vid}))
    if a.kind == b.kind == "bool":
        return V("bool", a.cls | b.cls, a.arr or b.arr)
    if a.kind == b.kind and a.kind in ("none", "finfo", "str"):
        return a
    if a.kind == b.kind == "seq" and len(a.items) == len(b.items):
        return V("seq", items=[join(x, y) for x, y in zip(a.items, b.items)])
    if a.kind == b.kind == "seq":
        e = None
        for x in a.items + b.items:
            e = join(e, x)
        return V("seq", items=[e] if e is not None else [])
    return OPAQUE


class Origin:
    """Where NaN first appears from NaN-free operands."""

    def __init__(self):
        self.events: List[Tuple[int, str, str]] = []

    def note(self, node, what, operands):
        ev = (getattr(node, "lineno", 0), what, operands)
        if ev not in self.events:
            self.events.append(ev)


def _apply(fn, *sets) -> FrozenSet[str]:
    out = set()
    for combo in itertools.product(*[[r for c in s for r in REPS[c]] for s in sets]):
        try:
            r = fn(*combo)
        except (ZeroDivisionError, ValueError, OverflowError):
            out.add("RAISE")
            continue
        if fn in (_add, _sub, _mul) and isinstance(r, float) and math.isinf(r) and all(math.isfinite(x) for x in combo):
            r = math.copysign(_FM, r)  # overflow of finite operands is not modelled
        out.add(classify(r))
    return frozenset(out)


def _np_log(x):
    if x != x:
        return x
    if x < 0:
        return math.nan
    if x == 0:
        return -math.inf
    return math.log(x) if x != math.inf else math.inf


def _np_exp(x):
    if x != x:
        return x
    if x > 700:
        return math.inf if x == math.inf else _FM  # finite overflow is not modelled
    return math.exp(x)


def _np_recip(x):
    if x == 0:
        return math.inf  # ZERO stands for +0.0
    return 1.0 / x


def _np_max(a, b):
    if a != a or b != b:
        return math.nan
    return max(a, b)


def _np_min(a, b):
    if a != a or b != b:
        return math.nan
    return min(a, b)


def _mul(a, b):
    r = a * b
    return r


def _add(a, b):
    return a + b


def _sub(a, b):
    return a - b


def _div(a, b):
    if b == 0:
        if a == 0 or a != a:
            return math.nan
        return math.copysign(math.inf, a)
    return a / b


class Interp:
    def __init__(self, prog: Program, refs: Refs, cat: Catalogue, backend_module: str, depth_limit: int = 8):
        self.prog, self.refs, self.cat = prog, refs, cat
        self.backend_module = backend_module  # module whose registrations implement ops on arrays ('funsor.ops.array', 'funsor.torch.ops', 'funsor.jax.ops')
        self.origin = Origin()
        self.depth_limit = depth_limit
        self.opaque_reasons: List[str] = []
        self.raised: List[str] = []

    # ------------------------------------------------------------------ arithmetic
    def binop(self, node, name, fn, a: V, b: V) -> V:
        if a.kind != "num" or b.kind != "num":
            return self.opaque(f"{name} on {a.kind}/{b.kind}", node)
        res = _apply(fn, a.cls, b.cls)
        arr = a.arr or b.arr
        if "RAISE" in res:
            if arr:
                res = (res - {"RAISE"}) | {NAN}
            else:
                self.raised.append(f"line {getattr(node, 'lineno', '?')}: {name} raises on {a!r}, {b!r}")
                res = res - {"RAISE"}
        ub = frozenset()
        if name == "sub" and b.bounds(a):
            res = res & {NINF, FMIN, NEG, ZERO, NAN}  # a - b with b >= a element-wise
        if name in ("clip-lower",) or name.endswith("maximum") or name == "max":
            ub = upper_of(a, b)
        if NAN in res and NAN not in a.cls and NAN not in b.cls:
            self.origin.note(node, f"`{norm(node)}` ({name})", f"{a!r} , {b!r}")
        return num(res, arr, ub)

    def unop(self, node, name, fn, a: V, raises_scalar=False) -> V:
        if a.kind != "num":
            return self.opaque(f"{name} on {a.kind}", node)
        res = _apply(fn, a.cls)
        if "RAISE" in res:
            if a.arr and not raises_scalar:
                res = (res - {"RAISE"}) | {NAN}
            else:
                self.raised.append(f"line {getattr(node, 'lineno', '?')}: {name} raises on {a!r}")
                res = res - {"RAISE"}
        if NAN in res and NAN not in a.cls:
            self.origin.note(node, f"`{norm(node)}` ({name})", f"{a!r}")
        return num(res, a.arr)

    def opaque(self, why, node=None) -> V:
        self.opaque_reasons.append(f"line {getattr(node, 'lineno', '?')}: {why}")
        return OPAQUE

    def fold_closure(self, fn, s: FrozenSet[str], name, node) -> FrozenSet[str]:
        """classes of fn-folding one or more elements drawn from s"""
        t = frozenset(s)
        for _ in range(6):
            n = t | (_apply(fn, t, s) - {"RAISE"})
            if n == t:
                break
            t = n
        if NAN in t and NAN not in s:
            self.origin.note(node, f"`{norm(node)}` ({name} over elements)", "{" + ",".join(sorted(s)) + "}")
        return t

    def compare(self, op, a: V, b: V) -> V:
        if a.kind != "num" or b.kind != "num":
            return V("bool", {True, False})
        fn = {ast.Lt: lambda x, y: x < y, ast.LtE: lambda x, y: x <= y, ast.Gt: lambda x, y: x > y, ast.GtE: lambda x, y: x >= y,
              ast.Eq: lambda x, y: x == y, ast.NotEq: lambda x, y: x != y}.get(type(op))
        if fn is None:
            return V("bool", {True, False})
        out = set()
        per_class = {}
        for ca in a.cls:
            bs = set()
            for ra in REPS[ca]:
                for cb in b.cls:
                    for rb in REPS[cb]:
                        bs.add(bool(fn(ra, rb)))
            per_class[ca] = frozenset(bs)
            out |= bs
        v = V("bool", out, a.arr or b.arr)
        v.items = per_class  # which classes of the left operand can satisfy the comparison (used for refinement and masks)
        return v

    # ------------------------------------------------------------------ expressions
    def ev(self, e: ast.AST, env: Dict[str, V], depth: int) -> V:
        if isinstance(e, ast.Constant):
            v = e.value
            if isinstance(v, bool):
                return V("bool", {v})
            if isinstance(v, (int, float)):
                return num({classify(float(v))})
            if v is None:
                return NONE
            if isinstance(v, str):
                return V("str")
            return OPAQUE
        if isinstance(e, ast.Name):
            if e.id in env:
                return env[e.id]
            r = self.refs.resolve(e)
            if r in ("math.inf", "numpy.inf"):
                return num({PINF})
            return V("ref", items=r)
        if isinstance(e, ast.Attribute):
            r = self.refs.resolve(e)
            if r in ("math.inf", "numpy.inf", "numpy.Inf", "torch.inf", "jax.numpy.inf"):
                return num({PINF})
            if r in ("math.nan", "numpy.nan"):
                return num({NAN})
            if r == "sys.float_info.max":
                return num({FMAX})
            if r in ("sys.float_info.min", "sys.float_info.epsilon"):
                return num({POS})
            base = self.ev(e.value, env, depth)
            if base.kind == "finfo":
                if e.attr == "min":
                    return num({FMIN})
                if e.attr == "max":
                    return num({FMAX})
                if e.attr in ("eps", "tiny", "smallest_normal"):
                    return num({POS})
                return self.opaque(f"finfo.{e.attr}", e)
            if base.kind == "num" and e.attr in ("dtype",):
                return V("dtype")
            if base.kind == "num" and e.attr in ("T", "real", "data"):
                return base
            if base.kind == "num" and e.attr in ("shape", "ndim", "size"):
                return OPAQUE
            return V("ref", items=r) if r else V("attr", items=(base, e.attr))
        if isinstance(e, ast.UnaryOp):
            a = self.ev(e.operand, env, depth)
            if isinstance(e.op, ast.USub):
                return self.unop(e, "neg", lambda x: -x, a)
            if isinstance(e.op, ast.UAdd):
                return a
            if isinstance(e.op, ast.Not):
                if a.kind == "bool":
                    return V("bool", {not x for x in a.cls})
                return V("bool", {True, False})
            return self.opaque("unary op", e)
        if isinstance(e, ast.BinOp):
            a, b = self.ev(e.left, env, depth), self.ev(e.right, env, depth)
            if a.kind == "seq" and b.kind == "seq" and isinstance(e.op, ast.Add):
                return V("seq", items=a.items + b.items)
            table = {ast.Add: ("add", _add), ast.Sub: ("sub", _sub), ast.Mult: ("mul", _mul), ast.Div: ("truediv", _div)}
            if type(e.op) in table:
                nm, fn = table[type(e.op)]
                if nm == "truediv" and a.kind == "num" and b.kind == "num" and not a.arr and not b.arr:
                    fn = lambda x, y: x / y  # Python scalars: division by zero raises
                return self.binop(e, nm, fn, a, b)
            return self.opaque(f"binary op {type(e.op).__name__}", e)
        if isinstance(e, ast.Compare) and len(e.ops) == 1:
            a, b = self.ev(e.left, env, depth), self.ev(e.comparators[0], env, depth)
            if a.kind == "dtype" or b.kind == "dtype":
                # floating-point arrays are analysed: `x.dtype == "bool"` and the like are false
                return V("bool", {isinstance(e.ops[0], ast.NotEq) or isinstance(e.ops[0], ast.NotIn)})
            if isinstance(e.ops[0], (ast.Is, ast.IsNot)):
                if b.kind == "none":
                    isn = a.kind == "none"
                    if a.kind in ("opaque", "ref", "attr"):
                        return V("bool", {True, False})
                    return V("bool", {isn if isinstance(e.ops[0], ast.Is) else not isn})
                return V("bool", {True, False})
            return self.compare(e.ops[0], a, b)
        if isinstance(e, ast.BoolOp):
            vals = [self.ev(v, env, depth) for v in e.values]
            if all(v.kind == "bool" for v in vals):
                if isinstance(e.op, ast.And):
                    if any(v.cls == {False} for v in vals):
                        return V("bool", {False})
                    if all(v.cls == {True} for v in vals):
                        return V("bool", {True})
                else:
                    if any(v.cls == {True} for v in vals):
                        return V("bool", {True})
                    if all(v.cls == {False} for v in vals):
                        return V("bool", {False})
            return V("bool", {True, False})
        if isinstance(e, ast.IfExp):
            return self.ifexp(e, env, depth)
        if isinstance(e, (ast.Tuple, ast.List)):
            return V("seq", items=[self.ev(x, env, depth) for x in e.elts])
        if isinstance(e, ast.Subscript):
            base = self.ev(e.value, env, depth)
            if base.kind == "num":
                return num(base.cls, True)  # indexing / slicing / masking an array yields elements of it
            if base.kind == "seq":
                if isinstance(e.slice, ast.Constant) and isinstance(e.slice.value, int) and -len(base.items) <= e.slice.value < len(base.items):
                    return base.items[e.slice.value]
                el = None
                for x in base.items:
                    el = join(el, x)
                return el if el is not None else OPAQUE
            return OPAQUE
        if isinstance(e, ast.Call):
            return self.call(e, env, depth)
        if isinstance(e, (ast.ListComp, ast.GeneratorExp)):
            if len(e.generators) == 1:
                it = self.ev(e.generators[0].iter, env, depth)
                env2 = dict(env)
                self.bind(e.generators[0].target, self.elem(it), env2)
                return V("seq", items=[self.ev(e.elt, env2, depth)])
            return OPAQUE
        if isinstance(e, ast.JoinedStr):
            return V("str")
        return OPAQUE

    def elem(self, it: V) -> V:
        if it.kind == "seq":
            el = None
            for x in it.items:
                el = join(el, x)
            return el if el is not None else OPAQUE
        if it.kind == "num":
            return num(it.cls, True)
        return OPAQUE

    def refine(self, test: ast.AST, env, outcome: bool, depth) -> Optional[Dict[str, V]]:
        """environment in which `test` evaluates to outcome (None when impossible)"""
        v = self.ev(test, env, depth)
        if v.kind == "bool" and outcome not in v.cls:
            return None
        env2 = dict(env)
        if isinstance(test, ast.Compare) and len(test.ops) == 1 and isinstance(test.left, ast.Name) and test.left.id in env \
                and env[test.left.id].kind == "num" and not env[test.left.id].arr and v.kind == "bool" and isinstance(v.items, dict):
            keep = {c for c, bs in v.items.items() if outcome in bs}
            if not keep:
                return None
            env2[test.left.id] = num(keep, False)
        if isinstance(test, ast.UnaryOp) and isinstance(test.op, ast.Not):
            return self.refine(test.operand, env, not outcome, depth)
        # `mask(x).any()` is False / `mask(x).all()` is True: then EVERY element answers that way, which narrows the classes of x;
        # the other outcome says nothing about an individual element
        if isinstance(test, ast.Call) and isinstance(test.func, ast.Attribute) and test.func.attr in ("any", "all") and not test.args:
            decisive = (test.func.attr == "any" and outcome is False) or (test.func.attr == "all" and outcome is True)
            m = test.func.value
            if decisive and isinstance(m, ast.Call) and len(m.args) == 1 and isinstance(m.args[0], ast.Name) and m.args[0].id in env:
                mv = self.ev(m, env, depth)
                xv = env[m.args[0].id]
                if mv.kind == "bool" and isinstance(mv.items, dict) and xv.kind == "num":
                    keep = {c for c, bs in mv.items.items() if outcome in bs}
                    if not keep:
                        return None
                    env2[m.args[0].id] = num(keep & set(xv.cls) or keep, xv.arr)
        return env2

    def ifexp(self, e: ast.IfExp, env, depth) -> V:
        out = None
        for outcome, branch in ((True, e.body), (False, e.orelse)):
            env2 = self.refine(e.test, env, outcome, depth)
            if env2 is not None:
                out = join(out, self.ev(branch, env2, depth))
        return out if out is not None else OPAQUE

    # ------------------------------------------------------------------ calls
    def call(self, c: ast.Call, env, depth) -> V:
        fn = c.func
        args = [self.ev(a.value if isinstance(a, ast.Starred) else a, env, depth) for a in c.args]
        kws = {k.arg: self.ev(k.value, env, depth) for k in c.keywords if k.arg}
        # array methods
        if isinstance(fn, ast.Attribute):
            recv = self.ev(fn.value, env, depth)
            if recv.kind == "num":
                return self.method(c, fn.attr, recv, args, kws)
            if recv.kind == "bool" and fn.attr in ("any", "all") and not args:
                # a reduction of an element-wise mask over the whole array: the other elements decide as well, so the outcome is not a
                # function of this element's class - unless every class gives the same answer
                if recv.arr and len(recv.cls) > 1:
                    return V("bool", {True, False})
                return V("bool", recv.cls)
            if recv.kind == "seq" and fn.attr == "append":
                recv.items.append(args[0] if args else OPAQUE)
                return NONE
            if recv.kind == "str":
                return V("str") if fn.attr not in ("split",) else V("seq", items=[V("str")])
        r = self.refs.resolve(fn) if isinstance(fn, (ast.Name, ast.Attribute)) else None
        if r is None and isinstance(fn, ast.Name) and fn.id in env and env[fn.id].kind == "ref":
            r = env[fn.id].items
        if r is None:
            return self.opaque(f"unresolved callee `{norm(fn)}`", c)
        if r.startswith("funsor.") and r not in self.cat.ops:
            lk0 = self.prog.lookup(r)
            if lk0 and lk0[0] == "value" and isinstance(lk0[2], (ast.Name, ast.Attribute)):
                r = self.cat._resolve_alias(lk0[1], ast.Name(id=r.rsplit(".", 1)[-1], ctx=ast.Load())) or r  # `_builtin_max = max`
        out = self.intrinsic(c, r, args, kws, env, depth)
        if out is not None:
            return out
        # an op of the package
        if r in self.cat.ops:
            return self.call_op(c, self.cat.ops[r], args, kws, depth)
        lk = self.prog.lookup(r)
        if lk and lk[0] == "func":
            return self.call_func(c, lk[1], args, kws, depth)
        return self.opaque(f"call of `{r}`", c)

    def method(self, c, name, recv: V, args, kws) -> V:
        if name in ("detach", "copy", "clone", "reshape", "view", "squeeze", "unsqueeze", "permute", "transpose", "expand", "astype", "to", "contiguous", "flatten", "ravel", "float", "double"):
            return recv
        if name in ("clamp", "clip"):
            lo = kws.get("min", args[0] if len(args) > 0 else NONE)
            hi = kws.get("max", args[1] if len(args) > 1 else NONE)
            return self.clip(c, recv, lo, hi)
        if name == "log":
            return self.unop(c, "log", _np_log, recv)
        if name == "exp":
            return self.unop(c, "exp", _np_exp, recv)
        if name == "reciprocal":
            return self.unop(c, "reciprocal", _np_recip, recv)
        if name in ("max", "amax"):
            return num(recv.cls, True, upper_of(recv))
        if name in ("min", "amin"):
            return num(recv.cls, True)
        if name == "sum":
            return num(self.fold_closure(_add, recv.cls, "sum", c), True)
        if name in ("item", "tolist"):
            return num(recv.cls, False)
        if name in ("dim", "ndimension"):
            return OPAQUE
        return self.opaque(f"array method .{name}()", c)

    def clip(self, node, x: V, lo: V, hi: V) -> V:
        if x.kind != "num":
            return self.opaque("clip of non-number", node)
        res = x
        if lo.kind == "num":
            res = self.binop(node, "clip-lower", _np_max, res, lo)
        elif lo.kind != "none":
            return self.opaque("clip lower bound unknown", node)
        ub = res.ub if res.kind == "num" else frozenset()
        if lo.kind == "none":
            ub = upper_of(x)
        if hi.kind == "num":
            res = self.binop(node, "clip-upper", _np_min, res, hi)
            ub = frozenset()
        elif hi.kind != "none":
            return self.opaque("clip upper bound unknown", node)
        return num(res.cls, x.arr or (lo.kind == "num" and lo.arr) or (hi.kind == "num" and hi.arr), ub) if res.kind == "num" else res

    def intrinsic(self, c, r: str, args, kws, env, depth) -> Optional[V]:
        mod, _, name = r.rpartition(".")
        a0 = args[0] if args else OPAQUE
        lib = mod in ("numpy", "torch", "jax.numpy", "numpy.linalg")
        if r in ("math.log",):
            return self.unop(c, "math.log", lambda x: math.log(x) if x == x and x != math.inf else x, a0, raises_scalar=True)
        if r == "math.exp":
            return self.unop(c, "math.exp", _np_exp, a0)
        if r in ("math.log1p",):
            return self.unop(c, "math.log1p", lambda x: math.log1p(x) if x == x and x != math.inf else x, a0, raises_scalar=True)
        if r in ("builtins.max", "builtins.min") and len(args) == 2:
            return self.binop(c, name, _np_max if name == "max" else _np_min, args[0], args[1])
        if r in ("operator.truediv",) and len(args) == 2:
            arr = any(x.kind == "num" and x.arr for x in args)
            return self.binop(c, "truediv", _div if arr else (lambda a, b: a / b), args[0], args[1])
        if r in ("operator.sub", "operator.add", "operator.mul") and len(args) == 2:
            return self.binop(c, name, {"sub": _sub, "add": _add, "mul": _mul}[name], args[0], args[1])
        if r in ("jax.lax.stop_gradient",) and args:
            return a0
        if r in ("jax.scipy.special.logsumexp", "scipy.special.logsumexp", "torch.logsumexp") and a0.kind == "num":
            return num(a0.cls, True)  # library routine, exact at -inf
        if r == "builtins.sum" and len(args) == 1 and a0.kind == "seq":
            acc = None
            for x in a0.items:
                acc = x if acc is None else self.binop(c, "add", _add, acc, x)
            if acc is not None and acc.kind == "num" and len(a0.items) == 1:
                acc = num(self.fold_closure(_add, acc.cls, "sum", c), acc.arr)  # a list built in a loop: one or more summands
            return acc if acc is not None else num({ZERO})
        if r == "builtins.isinstance" and len(c.args) == 2:
            t = c.args[1]
            names = [norm(x) for x in (t.elts if isinstance(t, ast.Tuple) else [t])]
            if a0.kind == "num":
                scalar_t = any(n.endswith("Number") or n in ("int", "float") for n in names)
                array_t = any(n in ("array", "np.ndarray", "torch.Tensor", "np.generic") or n.endswith("Tensor") or n.endswith("ndarray") for n in names)
                if scalar_t and not array_t:
                    return V("bool", {not a0.arr})
                if array_t and not scalar_t:
                    return V("bool", {a0.arr})
            return V("bool", {True, False})
        if r in ("builtins.len", "builtins.range", "builtins.enumerate", "builtins.zip", "builtins.sorted", "builtins.set", "builtins.dict", "builtins.tuple", "builtins.list"):
            if r in ("builtins.tuple", "builtins.list") and a0.kind == "seq":
                return a0
            if r == "builtins.zip":
                return V("seq", items=[V("seq", items=[self.elem(x) for x in args])])
            if r == "builtins.enumerate":
                return V("seq", items=[V("seq", items=[OPAQUE, self.elem(a0)])])
            return OPAQUE
        if r == "builtins.abs" and a0.kind == "num":
            return self.unop(c, "abs", lambda x: abs(x), a0)
        if r == "builtins.float" and a0.kind == "num":
            return num(a0.cls, False)
        if lib or mod == "numpy":
            if name in ("finfo", "iinfo"):
                return V("finfo")
            if name in ("result_type",):
                return V("dtype")
            if name == "errstate":
                return NONE
            if name == "log":
                return self.unop(c, f"{mod}.log", _np_log, self._arr(a0))
            if name == "exp":
                return self.unop(c, f"{mod}.exp", _np_exp, self._arr(a0))
            if name == "log1p" and a0.kind == "num":
                return self.unop(c, f"{mod}.log1p", lambda x: _np_log(1.0 + x) if x == x else x, self._arr(a0))
            if name == "expm1" and a0.kind == "num":
                return self.unop(c, f"{mod}.expm1", lambda x: (_np_exp(x) - 1.0) if x == x else x, self._arr(a0))
            if name == "reciprocal":
                return self.unop(c, f"{mod}.reciprocal", _np_recip, self._arr(a0))
            if name in ("negative", "neg"):
                return self.unop(c, "neg", lambda x: -x, a0)
            if name in ("abs", "absolute", "fabs") and a0.kind == "num":
                return self.unop(c, "abs", lambda x: abs(x), a0)
            if name in ("isinf", "isneginf", "isposinf") and a0.kind == "num":
                pred = {"isinf": lambda k: k in (NINF, PINF), "isneginf": lambda k: k == NINF, "isposinf": lambda k: k == PINF}[name]
                v = V("bool", {pred(x) for x in a0.cls}, True)
                v.items = {x: frozenset({pred(x)}) for x in a0.cls}
                return v
            if name in ("logical_not",) and a0.kind == "bool":
                return V("bool", {not x for x in a0.cls}, True)
            if name in ("logical_and", "logical_or") and len(args) == 2 and a0.kind == "bool" and args[1].kind == "bool":
                f2 = (lambda x, y: x and y) if name == "logical_and" else (lambda x, y: x or y)
                return V("bool", {f2(x, y) for x in a0.cls for y in args[1].cls}, True)
            if name in ("maximum", "fmax") or (name == "max" and len(args) == 2 and args[1].kind == "num"):
                return self.binop(c, f"{mod}.maximum", _np_max, self._arr(a0), args[1])
            if name in ("minimum", "fmin") or (name == "min" and len(args) == 2 and args[1].kind == "num"):
                return self.binop(c, f"{mod}.minimum", _np_min, self._arr(a0), args[1])
            if name in ("clip", "clamp"):
                lo = kws.get("min", kws.get("a_min", args[1] if len(args) > 1 else NONE))
                hi = kws.get("max", kws.get("a_max", args[2] if len(args) > 2 else NONE))
                return self.clip(c, self._arr(a0), lo, hi)
            if name in ("amax", "max") and a0.kind == "num":
                return num(a0.cls, True, upper_of(a0))
            if name in ("amin", "min") and a0.kind == "num":
                return num(a0.cls, True)
            if name in ("sum", "nansum") and a0.kind == "num":
                return num(self.fold_closure(_add, a0.cls, f"{mod}.sum", c), True)
            if name == "logsumexp" and a0.kind == "num":
                # library routine, exact at -inf: all -inf -> -inf; otherwise finite/inf according to the largest element
                return num(a0.cls, True)
            if name in ("zeros_like", "zeros"):
                return num({ZERO}, True)
            if name in ("ones_like", "ones"):
                return num({POS}, True)
            if name == "isfinite" and a0.kind == "num":
                v = V("bool", {x in FINITE for x in a0.cls}, True)
                v.items = {x: frozenset({x in FINITE}) for x in a0.cls}
                return v
            if name == "isnan" and a0.kind == "num":
                v = V("bool", {x == NAN for x in a0.cls}, True)
                v.items = {x: frozenset({x == NAN}) for x in a0.cls}
                return v
            if name == "where" and len(args) == 3:
                split = self._where_by_cases(c, env, depth)
                if split is not None:
                    return split
                cond, a, b = args
                a, b = (num(x.cls, True) if x.kind == "num" else x for x in (a, b))
                if cond.kind == "bool" and isinstance(cond.items, dict) and a.kind == "num" and b.kind == "num" and c.args[1] is not None:
                    # where(pred(a), a, b): element-wise, keep the classes of `a` that satisfy the predicate when the predicate was computed from `a`
                    src = self._mask_source(c.args[0])
                    if src is not None and norm(src) == norm(c.args[1]):
                        keep = {k for k, bs in cond.items.items() if True in bs}
                        out = set(keep)
                        if any(False in bs for bs in cond.items.values()):
                            out |= b.cls
                        # where(isfinite(a), a, c): a -inf element is replaced by a finite one - still an upper bound of what a bounded
                        replaced = {k for k, bs in cond.items.items() if False in bs}
                        keep_ub = upper_of(args[1]) if replaced <= {NINF} and b.cls <= FINITE else frozenset()
                        return num(out, True, keep_ub)
                    if src is not None and norm(src) == norm(c.args[2]):
                        keep = {k for k, bs in cond.items.items() if False in bs}
                        out = set(keep)
                        if any(True in bs for bs in cond.items.values()):
                            out |= a.cls
                        return num(out, True)
                if a.kind == "num" and b.kind == "num":
                    return num(a.cls | b.cls, True)
                return OPAQUE
            if name in ("einsum",):
                ops_ = [x for x in args if x.kind in ("num", "seq")]
                cls = None
                for x in ops_:
                    xs = x.items if x.kind == "seq" else [x]
                    for y in xs:
                        if y.kind != "num":
                            return self.opaque("einsum operand unknown", c)
                        cls = y.cls if cls is None else (_apply(_mul, cls, y.cls) - {"RAISE"})
                        # a list built in a loop holds one or more operands of that class
                        if x.kind == "seq" and len(xs) == 1:
                            cls = self.fold_closure(_mul, cls, "einsum product", c)
                if cls is None:
                    return OPAQUE
                if NAN in cls:
                    self.origin.note(c, f"`{norm(c)}` (product of operands)", "")
                return num(self.fold_closure(_add, cls, "einsum sum", c), True)
            if name in ("reshape", "transpose", "squeeze", "expand_dims", "broadcast_to", "asarray", "array", "swapaxes", "stack", "concatenate", "permute", "unsqueeze"):
                if a0.kind == "num":
                    return num(a0.cls, True)
                if a0.kind == "seq":
                    return self._arr(self.elem(a0))
            return self.opaque(f"library function {r}", c)
        return None

    ELEMENTWISE_MASK_CALLS = {"abs", "absolute", "fabs", "isfinite", "isnan", "isinf", "isneginf", "isposinf", "logical_not", "logical_and", "logical_or",
                              "finfo", "negative"}

    def _where_by_cases(self, c: ast.Call, env, depth) -> Optional[V]:
        """where(mask(X), a, b) with an element-wise mask over ONE array variable X: decided by case split on the class of the
        element of X (each element sees its own mask value), so any spelling of the predicate is read the same way -
        isfinite(X), abs(X) <= finfo.max, (X > -inf) & (X < inf) ..."""
        m, ae, be = c.args
        if isinstance(m, ast.Name) and ("<maskdef>" + m.id) in env and env["<maskdef>" + m.id].kind == "maskdef":
            expr, srcs = env["<maskdef>" + m.id].items
            if all(x in env and env[x].vid == vid for x, vid in srcs.items()):
                m = expr
        names = {n.id for n in ast.walk(m) if isinstance(n, ast.Name) and n.id in env and env[n.id].kind == "num" and env[n.id].arr}
        if len(names) != 1:
            return None
        X = next(iter(names))
        xv = env[X]
        if not xv.cls:
            return None
        for n in ast.walk(m):
            if isinstance(n, ast.Call):
                fn = n.func.attr if isinstance(n.func, ast.Attribute) else (n.func.id if isinstance(n.func, ast.Name) else None)
                if fn not in self.ELEMENTWISE_MASK_CALLS:
                    return None
            elif not isinstance(n, (ast.Compare, ast.BinOp, ast.BoolOp, ast.UnaryOp, ast.Attribute, ast.Constant, ast.Name, ast.Load, ast.cmpop, ast.operator,
                                    ast.unaryop, ast.boolop, ast.expr_context)):
                return None
        a_is_x = isinstance(ae, ast.Name) and ae.id == X
        b_is_x = isinstance(be, ast.Name) and be.id == X
        if not (a_is_x or b_is_x):
            return None
        out = set()
        replaced = set()
        other_cls = set()
        for k in sorted(xv.cls):
            env2 = dict(env)
            env2[X] = num({k}, True, xv.ub)
            mv = self.ev(m, env2, depth)
            av, bv = self.ev(ae, env2, depth), self.ev(be, env2, depth)
            if mv.kind != "bool" or av.kind != "num" or bv.kind != "num":
                return None
            if True in mv.cls:
                out |= av.cls
                if b_is_x and not a_is_x:
                    replaced.add(k)
                    other_cls |= av.cls
            if False in mv.cls:
                out |= bv.cls
                if a_is_x and not b_is_x:
                    replaced.add(k)
                    other_cls |= bv.cls
        # a -inf element replaced by a finite one: the result is still an upper bound of whatever X bounded
        keep_ub = upper_of(xv) if replaced <= {NINF} and other_cls <= FINITE else frozenset()
        return num(out, True, keep_ub)

    @staticmethod
    def _mask_source(e):
        if isinstance(e, ast.Call) and e.args:
            return e.args[0]
        if isinstance(e, ast.Compare):
            return e.left
        return None

    @staticmethod
    def _arr(v: V) -> V:
        if v.kind == "num" and not v.arr:
            return num(v.cls, True, v.ub | {v.vid})
        return v

    def call_op(self, c, op: OpInfo, args, kws, depth) -> V:
        """dispatch an op of the package the way the program does: by the kinds of its first `arity` arguments"""
        if depth >= self.depth_limit:
            return self.opaque("inlining depth", c)
        # constant-array constructors of the package: the element class is that of the fill value
        if op.name == "new_full" and len(args) >= 3 and args[2].kind == "num":
            return num(args[2].cls, True)
        if op.name == "new_zeros":
            return num({ZERO}, True)
        if op.name in ("new_eye", "new_arange"):
            return num({ZERO, POS}, True)
        arity = self.cat.arity_of(op.fq) or 1
        head = args[:arity]
        kinds = []
        for a in head:
            if a.kind == "num":
                kinds.append("array" if a.arr else "scalar")
            elif a.kind == "seq":
                kinds.append("arraylist")
            else:
                kinds.append("other")
        # registrations for this op in the backend module under analysis (and in funsor.ops.array for the numpy backend)
        best = None
        for r in self.cat.registrations:
            if r.registry != op.fq or r.method != "register" or len(r.pattern) != len(head):
                continue
            if r.module.name not in (self.backend_module,):
                continue
            if all(self._pattern_matches(p, k) for p, k in zip(r.pattern, kinds)):
                best = r
        if best is not None:
            if best.target is not None:
                return self.call_func(c, best.target, args, kws, depth)
            if best.target_expr is not None:
                r2 = self.refs.prog.resolve_expr(best.module, best.target_expr) if isinstance(best.target_expr, (ast.Name, ast.Attribute)) else None
                if r2:
                    out = self.intrinsic(c, r2, args, kws, {}, depth)
                    if out is not None:
                        return out
            return self.opaque(f"registered implementation of {op.name} not analysable", c)
        # default implementation
        if op.impl is not None:
            f = self.prog.funcs_by_node.get(op.impl)
            if f is not None:
                return self.call_func(c, f, args, kws, depth)
        if op.impl_ext:
            out = self.intrinsic(c, op.impl_ext, args, kws, {}, depth)
            if out is not None:
                return out
            if op.impl_ext == "operator.sub" and len(args) == 2:
                return self.binop(c, "sub", _sub, args[0], args[1])
            if op.impl_ext == "operator.add" and len(args) == 2:
                return self.binop(c, "add", _add, args[0], args[1])
            if op.impl_ext == "operator.mul" and len(args) == 2:
                return self.binop(c, "mul", _mul, args[0], args[1])
            if op.impl_ext == "operator.truediv" and len(args) == 2:
                arr = any(x.kind == "num" and x.arr for x in args)
                return self.binop(c, "truediv", _div if arr else (lambda a, b: a / b), args[0], args[1])
            if op.impl_ext == "operator.neg" and len(args) == 1:
                return self.unop(c, "neg", lambda x: -x, args[0])
        return self.opaque(f"op {op.name} has no analysable implementation for {kinds}", c)

    @staticmethod
    def _pattern_matches(p: ast.AST, kind: str) -> bool:
        t = norm(p)
        names = [norm(x) for x in p.elts] if isinstance(p, ast.Tuple) else [t]
        if kind == "array":
            return any(n in ("array", "np.ndarray", "torch.Tensor", "object") or n.endswith("ndarray") or n.endswith(".Tensor") for n in names)
        if kind == "scalar":
            return any(n.endswith("Number") or n in ("int", "float", "object") for n in names)
        if kind == "arraylist":
            return any("arraylist" in n or "Tuple" in n or n in ("tuple", "list", "object") for n in names)
        return False

    def call_func(self, c, f: Func, args, kws, depth) -> V:
        if depth >= self.depth_limit:
            return self.opaque("inlining depth", c)
        node = f.node
        if isinstance(node, ast.Lambda):
            env = {}
            for p, a in zip(f.positional, args):
                env[p] = a
            return self.ev(node.body, env, depth + 1)
        env: Dict[str, V] = {}
        pos = [a.arg for a in node.args.posonlyargs + node.args.args]
        defaults = node.args.defaults
        for i, p in enumerate(pos):
            if i < len(args):
                env[p] = args[i]
            elif p in kws:
                env[p] = kws[p]
            else:
                di = i - (len(pos) - len(defaults))
                env[p] = self.ev(defaults[di], {}, depth + 1) if 0 <= di < len(defaults) else OPAQUE
        for a, d in zip(node.args.kwonlyargs, node.args.kw_defaults):
            env[a.arg] = kws.get(a.arg, self.ev(d, {}, depth + 1) if d is not None else OPAQUE)
        if node.args.vararg:
            env[node.args.vararg.arg] = V("seq", items=list(args[len(pos):]))
        ret = self.block(node.body, env, depth + 1)
        return ret if ret is not None else NONE

    # ------------------------------------------------------------------ statements
    def bind(self, target, val: V, env):
        if isinstance(target, ast.Name):
            env[target.id] = val
        elif isinstance(target, (ast.Tuple, ast.List)):
            for i, t in enumerate(target.elts):
                if val.kind == "seq" and len(val.items) == len(target.elts):
                    self.bind(t, val.items[i], env)
                elif val.kind == "seq" and len(val.items) == 1:
                    self.bind(t, self.elem(val) if val.items[0].kind != "seq" else OPAQUE, env)
                else:
                    self.bind(t, OPAQUE, env)

    def block(self, stmts, env, depth) -> Optional[V]:
        """execute statements, mutating env; returns the join of the values returned on paths that return, and sets
        env['<returned>'] when every path returned"""
        ret = None
        for i, st in enumerate(stmts):
            if isinstance(st, ast.Return):
                v = self.ev(st.value, env, depth) if st.value is not None else NONE
                env["<done>"] = V("bool", {True})
                return join(ret, v)
            if isinstance(st, ast.Raise):
                env["<done>"] = V("bool", {True})
                self.raised.append(f"line {st.lineno}: {norm(st)[:60]}")
                return ret
            if isinstance(st, ast.Assign):
                v = self.ev(st.value, env, depth)
                for t in st.targets:
                    if isinstance(t, ast.Subscript):
                        self.store_subscript(t, v, env, depth)
                    else:
                        self.bind(t, v, env)
                # `m = isfinite(x)`: remember the defining expression of a mask local (and which value of x it was computed from), so that
                # where(m, x, c) is read exactly like where(isfinite(x), x, c)
                if len(st.targets) == 1 and isinstance(st.targets[0], ast.Name) and v.kind == "bool":
                    srcs = {n.id: env[n.id].vid for n in ast.walk(st.value) if isinstance(n, ast.Name) and n.id in env and env[n.id].kind == "num"}
                    env["<maskdef>" + st.targets[0].id] = V("maskdef", items=(st.value, srcs))
                continue
            if isinstance(st, ast.AugAssign) and isinstance(st.target, ast.Name):
                cur = env.get(st.target.id, OPAQUE)
                v = self.ev(st.value, env, depth)
                table = {ast.Add: ("add", _add), ast.Sub: ("sub", _sub), ast.Mult: ("mul", _mul), ast.Div: ("truediv", _div)}
                if cur.kind == "seq" and v.kind == "seq" and isinstance(st.op, ast.Add):
                    env[st.target.id] = V("seq", items=cur.items + v.items)
                elif type(st.op) in table:
                    env[st.target.id] = self.binop(st, table[type(st.op)][0], table[type(st.op)][1], cur, v)
                else:
                    env[st.target.id] = OPAQUE
                continue
            if isinstance(st, ast.Expr):
                self.ev(st.value, env, depth)
                continue
            if isinstance(st, ast.If):
                outs = []
                for outcome, body in ((True, st.body), (False, st.orelse)):
                    env2 = self.refine(st.test, env, outcome, depth)
                    if env2 is None:
                        continue
                    # lists are mutated in place (append): give each branch its own copy so that the two branches are
                    # alternatives (joined element-wise afterwards), not two appends to one list
                    for k_, v_ in list(env2.items()):
                        if v_.kind == "seq" and isinstance(v_.items, list):
                            env2[k_] = V("seq", items=list(v_.items))
                    r = self.block(body, env2, depth)
                    ret = join(ret, r)
                    if "<done>" not in env2:
                        outs.append(env2)
                if not outs:
                    env["<done>"] = V("bool", {True})
                    return ret
                merged = {}
                for k in set().union(*[set(o) for o in outs]):
                    v = None
                    for o in outs:
                        v = join(v, o.get(k, OPAQUE)) if k in o else join(v, OPAQUE)
                    merged[k] = v
                env.clear()
                env.update(merged)
                continue
            if isinstance(st, (ast.For, ast.While)):
                it = self.ev(st.iter, env, depth) if isinstance(st, ast.For) else None
                # zero or more iterations: join to a fixpoint
                state = dict(env)
                for _ in range(6):
                    body_env = dict(state)
                    if isinstance(st, ast.For):
                        self.bind(st.target, self.elem(it), body_env)
                    r = self.block(st.body, body_env, depth)
                    ret = join(ret, r)
                    body_env.pop("<done>", None)
                    new = {}
                    for k in set(state) | set(body_env):
                        new[k] = join(state.get(k), body_env.get(k)) if (k in state and k in body_env) else (state.get(k) or body_env.get(k))
                    if all(repr(new.get(k)) == repr(state.get(k)) and (new.get(k).kind != "seq" or len(new[k].items) == len(state[k].items)) for k in new if k in state) and set(new) == set(state):
                        state = new
                        break
                    state = new
                env.clear()
                env.update(state)
                continue
            if isinstance(st, ast.With):
                r = self.block(st.body, env, depth)
                ret = join(ret, r)
                if "<done>" in env:
                    return ret
                continue
            if isinstance(st, ast.Try):
                env_b = dict(env)
                r = self.block(st.body, env_b, depth)
                ret = join(ret, r)
                outs = [env_b] if "<done>" not in env_b else []
                for h in st.handlers:
                    env_h = dict(env)
                    for k, v in env_b.items():  # the handler may see partial effects of the body
                        env_h[k] = join(env_h.get(k), v) if k in env_h else v
                    env_h.pop("<done>", None)
                    r = self.block(h.body, env_h, depth)
                    ret = join(ret, r)
                    if "<done>" not in env_h:
                        outs.append(env_h)
                if not outs:
                    env["<done>"] = V("bool", {True})
                    return ret
                merged = {}
                for k in set().union(*[set(o) for o in outs]):
                    v = None
                    for o in outs:
                        if k in o:
                            v = join(v, o[k])
                    merged[k] = v
                env.clear()
                env.update(merged)
                continue
            if isinstance(st, (ast.Assert, ast.Pass, ast.Import, ast.ImportFrom, ast.FunctionDef, ast.Global, ast.Nonlocal)):
                continue
            if isinstance(st, ast.Delete):
                continue
            self.opaque(f"statement {type(st).__name__}", st)
        return ret

    def store_subscript(self, t: ast.Subscript, v: V, env, depth):
        """x[mask] = v : elements whose class satisfies the mask are replaced by v"""
        if not isinstance(t.value, ast.Name) or t.value.id not in env:
            return
        cur = env[t.value.id]
        if cur.kind != "num" or v.kind != "num":
            env[t.value.id] = OPAQUE if cur.kind != "seq" else cur
            return
        m = self.ev(t.slice, env, depth)
        src = self._mask_source(t.slice)
        if m.kind == "bool" and isinstance(m.items, dict) and src is not None and norm(src) == t.value.id:
            keep = {k for k, bs in m.items.items() if False in bs}
            out = set(keep)
            if any(True in bs for bs in m.items.values()):
                out |= v.cls
            replaced = {k for k, bs in m.items.items() if True in bs}
            env[t.value.id] = num(out, True, upper_of(cur) if replaced <= {NINF} and v.cls <= FINITE else frozenset())
        else:
            env[t.value.id] = num(cur.cls | v.cls, True)  # weak update


def analyse(prog: Program, refs: Refs, cat: Catalogue, f: Func, args: List[V], backend_module: str, kws: Optional[Dict[str, V]] = None):
    """Interpret f on abstract arguments.  Returns (result V, interpreter) - the interpreter carries NaN origins, raises and
    the reasons for opacity."""
    it = Interp(prog, refs, cat, backend_module)
    res = it.call_func(f.node, f, args, kws or {}, 0)
    return res, it
