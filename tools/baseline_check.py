#!/usr/bin/env python3
"""Run the pinned test-suite on a tree and compare with /root/.vp/BASELINE.json.

usage: baseline_check.py [REPO]   (default /repo)
Prints the stable-pass tests that did not pass.  Exit 0 iff none.
This is a development aid (validating `fix:` commits and seeded changes);
it is not part of any registered check.
"""
import json, subprocess, sys, tempfile, os
import xml.etree.ElementTree as ET

repo = sys.argv[1] if len(sys.argv) > 1 else "/repo"
extra = sys.argv[2:]
base = json.load(open("/root/.vp/BASELINE.json"))
want = set(base["stable_pass"])
with tempfile.TemporaryDirectory() as d:
    out = os.path.join(d, "j.xml")
    cmd = ["/venv/bin/python", "-m", "pytest", "-q", "-p", "no:cacheprovider",
           "--timeout=900", "--continue-on-collection-errors", "-n", "14",
           "--junitxml=" + out] + extra
    env = dict(os.environ, PYTHONPATH=repo)
    r = subprocess.run(cmd, cwd=repo, env=env, capture_output=True, text=True)
    tail = r.stdout.strip().splitlines()[-1:] if r.stdout else []
    print("pytest:", *tail)
    passed = set()
    for tc in ET.parse(out).getroot().iter("testcase"):
        if not any(ch.tag in ("failure", "error", "skipped") for ch in tc):
            passed.add(tc.get("classname") + "::" + tc.get("name"))
missing = sorted(want - passed)
print(f"baseline stable_pass={len(want)} passed_now={len(passed)} missing={len(missing)}")
for m in missing[:40]:
    print("  MISSING", m)
sys.exit(1 if missing else 0)
