"""Claims table: what each registered check decides (kept in step with DESIGN.md section 4)."""
CLAIMS = {
 "C17": {
  "design_ref": "DESIGN.md section 4, C17 (R17.1-R17.9)",
  "technique": "static analysis: who-may-write/who-may-call over resolved names, exhaustive CFG path enumeration (normal + exceptional) of the context protocol methods, dominance, small abstract interpretation of the pushed value",
  "text": "Decides, for every module of funsor/, the structural facts from which the stack discipline follows by induction on nesting depth: only push_interpretation/pop_interpretation write funsor.interpreter._STACK (all aliases, reflective access included); those primitives are called only from Interpretation.__enter__/__exit__ and the two module-level base pushes (reflect, eager); every CFG path of __enter__/__exit__ and of every override performs exactly one push/pop (exceptional paths included) and pushes self or Prioritized(self, current); layering order (entering first, enclosing last, flatten in order, first non-None front to back); interpretations that delegate to the enclosing one capture it unconditionally at entry; no explicit __enter__/__exit__ calls, no plain generator suspended inside an interpretation context; dispatch reads the stack top. All sites and all paths are covered - not a sample of histories.",
  "note": "Trusts Python's with/ContextDecorator protocol and list.append/pop semantics; client code outside funsor/ is only inspected in the thorough tier (test/, examples/, scripts/). Statements whose ability to raise is undecidable are reported as unresolved, not failed.",
 },
 "C15": {
  "design_ref": "DESIGN.md section 4, C15 (R15.1-R15.7)",
  "technique": "static analysis: op catalogue (every Base.make resolved to an abstract operation by its default implementation) compared entry-by-entry with an axiom table; AST mirror-image comparison of sibling registrations",
  "text": "Decides the table clause and the sibling clauses: every entry of UNITS, DISTRIBUTIVE_OPS, BINARY_INVERSES, SAFE_BINARY_INVERSES, UNARY_INVERSES, PRODUCT_TO_POWER, REDUCE_OP_TO_NUMERIC and the einsum backend tables - read wherever it is written - is a theorem of the abstract operation its op resolves to (neutral element by value and boolean-ness, distributivity with carrier, inverse, power, fold, backend semiring); (scalar, array)/(array, scalar) registrations of commutative ops are mirror images; library functions registered for an op are its counterpart (found np.amax registered for amin on the jax backend). Exhaustive over the finite set of entries/registrations. NOT decided: the numerical clauses (scalar vs 0-d vs array values, exact limits at -inf/overflow, NaN-freeness of safe ops) - these quantify over floating-point values.",
  "note": "Trusts funsorlint/axioms.py (textbook facts) and the documented meaning of operator.*/math.*/numpy reductions. Ops whose identity cannot be resolved make their entries 'unresolved' (reported, never failed).",
 },
 "C20": {
  "design_ref": "DESIGN.md section 4, C20 (R20.1-R20.6)",
  "technique": "static ownership/effect analysis: flow-sensitive forward abstract interpretation of every function over an origin lattice (fresh / parameter / field / view / element / global / term / frozen), interprocedural summaries (mutates-parameter, returns-fresh/parameter/view) to a fixpoint over resolved calls",
  "text": "Decides for all ~770 mutation sites of the package (item/attribute stores and deletes, augmented assignments, mutating container/array methods, numpy/torch in-place API, out=, setattr) that none writes through a reference that can only be a term's constructor field (45 fields computed from every Funsor subclass __init__), a term, an operand of an array kernel (op implementations, einsum backends) or a value already handed to a term; that constructor fields are stored only during construction; that callers pass fresh objects in positions a callee (transitively) mutates. A dropped .copy(), a write into x.data / x.inputs, an in-place clamp of a view of an operand, mutation after super().__init__ are reported at the write with the origin chain. Covers every function on every syntactic path, including torch/jax/pyro modules the suite never runs.",
  "note": "Library semantics (which numpy/torch calls allocate, which return views) are a trusted table; unknown origins (elements of locally built containers of containers, closure variables, dynamic callees) are reported as unresolved and never failed; a write that is borrowed on one branch and fresh on another is reported only when the borrowed origin is array-kind.",
 },
 "C05": {
  "design_ref": "DESIGN.md section 4, C05 (R05.1-R05.5)",
  "technique": "static analysis: dataflow from constructor parameters into `bound` to derive binder fields, abstract interpretation (taint from the renaming map) of every _alpha_convert, CFG dominance of the mangling call in reflect, who-may-write on the name counter",
  "text": "Decides the premises of capture-avoiding substitution by eager renaming: for each of the 10 binder-carrying term classes the fields that feed `bound` (derived, not listed) are recomputed from the renaming map at their position in _alpha_convert - explicitly for string binders, through the base substitution for Variable/container binders - and no free (fresh) string field is renamed; every term reflect constructs is passed through _alpha_mangle before being cached/returned; _alpha_mangle renames all of expr.bound (only filter: already carries the marker) to gensym names and returns the term unchanged only when the map is empty; substitute stops at closed terms and hands only fresh names to eager_subs; the gensym counter is written only by += 1 inside gensym before its read; the marker literal agrees at all 8 sites. NOT decided: values of renamed terms.",
  "note": "Field kinds come from the constructors' isinstance assertions; unknown kinds are unresolved. The non-binder-string clause and the form of the unchanged-return guard were sharpened after seeded changes C05-independent-renames-free-input / C05-alpha-mangle-early-exit were examined.",
 },
 "C07": {
  "design_ref": "DESIGN.md section 4, C07 (R07.1-R07.6)",
  "technique": "static analysis: who-binds query for the intern tables, CFG dominance/reachability for the find-or-add protocol, shape analysis of the key comprehension, abstract interpretation of metaclass __call__ return values",
  "text": "Decides the hash-consing protocol for the five intern tables (terms, three type caches, op instances): every binding is a fresh weakref.WeakValueDictionary(); lookup, miss test and insert use one definition of the key with no re-definition in between; the insert dominates every return of a newly built object and the returned object is the inserted one; make_hash_key covers all arguments (no filter/slice; id() only under a hashability test) and reflect keys, constructs and records _ast_values from the same args; ops are hashed after apply_defaults from the (args, kwargs) they are built from; _ast_values precedes the insert (ids stay alive); the alpha-mangled object is what is cached; type.__call__ on terms occurs only in reflect and all 12 metaclass __call__ overrides return super().__call__ results; __hash__/__copy__/__reduce__ of terms, ops and the copyreg hooks of domains go through the interning constructors and are not overridden. NOT decided: GC timing, third-party array pickling.",
  "note": "Interning functions are anchored by qualified name (a vanished anchor is exit 2). Trusts WeakValueDictionary semantics. The unique-decodability clause of hash_args_kwargs and R07.8 (no strong memo on term instances) were added after the seeded changes C07-getslice-key-flattened / C07-lru-cache-holds-terms were examined.",
 },
 "C16": {
  "design_ref": "DESIGN.md section 4, C16 (R16.1-R16.7)",
  "technique": "static analysis: def-use/dataflow shape of the dispatch functions, effect analysis over the resolved call graph of the subtype oracle, enumeration and tuple-union expansion of all registrations per dispatcher, arity comparison against the term-class catalogue, CFG path check of element validation",
  "text": "Decides the determinism clauses: the rule returned by partial_call flows only from the cache entry of / dispatch on the deep_type tuple of all arguments; KeyedRegistry selects dispatchers by get_origin(key) and forwards all arguments; state written on the dispatch path is invalidated by registration; the 17 functions of the deep_issubclass/deep_type call graph write no module, class or argument state (so lru_cache and dispatch caches cannot change an answer) and the subclass-check registry is written only by its decorator; in each of ~170 dispatchers (per backend configuration) no expanded signature is registered twice with different rule bodies; each of ~150 interpretation/adjoint patterns has the arity of its term class constructor (or reflect's var-args packing) and of the rule's parameters, so it can fire; reflect specialises the class on deep_type of all arguments; a precise element type reported for a frozenset is validated or widened for every element. NOT decided: reflexivity/transitivity/instance agreement of the recursive subtype relation, and most-specific selection inside multipledispatch (external).",
  "note": "Patterns computed at run time (make_funsor/make_op factories, backend distribution classes) are noted, not checked. Trusts multipledispatch's ordering and that Dispatcher.add clears its cache. R16.6/R16.7 were added after the seeded changes C16-keyed-registry-stale-lookup / C16-frozenset-deep-type-first-element were examined.",
 },
}

NOT_APPLICABLE = {
 "C04": "value of f(**subs) over all substitution maps is a runtime quantity; no necessary structural clause beyond binder hygiene (decided under C05)",
 "C09": "plate-ordinal elimination is an algorithm over runtime factor-graph topology; only its table reads are structural (covered under C02/C15)",
 "C10": "scan/segment/lag index arithmetic over runtime durations; a static rule would freeze the very expressions it should judge",
 "C12": "floating-point linear algebra over runtime arrays (Gaussian pointwise algebra)",
 "C13": "floating-point linear algebra over runtime arrays (Gaussian marginals/integrals)",
 "C14": "numerical/statistical identities over runtime arrays and RNG state",
 "C19": "dimension bookkeeping over runtime ranks/shapes (off-by-one between batch dims, event rank, size-1 squeezing)",
 # claimed in DESIGN.md but not yet implemented in this snapshot; entries are removed as the checks land
 "C01": "check not implemented yet in this snapshot (planned: R01.1-R01.4, DESIGN.md)",
 "C02": "check not implemented yet in this snapshot (planned: R02.1-R02.5)",
 "C03": "check not implemented yet in this snapshot (planned: R03.1-R03.4)",
 "C06": "check not implemented yet in this snapshot (planned: R06.1-R06.4)",
 "C08": "check not implemented yet in this snapshot (planned: R08.1-R08.4)",
 "C11": "check not implemented yet in this snapshot (planned: R11.1-R11.5)",
 "C18": "check not implemented yet in this snapshot (planned: R18.1-R18.6)",
}
