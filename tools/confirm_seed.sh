#!/bin/bash
# usage: confirm_seed.sh <PROP> <agent-out-dir> <m1|m2|...> <seed-name>
# Confirms a seeded change in a scratch worktree: applies alone, suite == baseline, demo passes without / fails with.
# On success stores /verif/seeded/<seed-name>/{patch.diff,demo.py,notes.md,meta.json}.
set -u
prop=$1; out=$2; m=$3; name=$4
wt=$(mktemp -d /tmp/fl_confirm.XXXXXX)
git -C /repo worktree add -q --detach $wt/wt HEAD || exit 3
cd $wt/wt
res="confirmed"
PYTHONPATH=$wt/wt /venv/bin/python $out/${m}_demo.py > $wt/demo_clean.log 2>&1; rc_clean=$?
git apply $out/$m.diff || res="patch-does-not-apply"
PYTHONPATH=$wt/wt /venv/bin/python -c "import funsor" > $wt/import.log 2>&1 || res="import-fails"
PYTHONPATH=$wt/wt /venv/bin/python $out/${m}_demo.py > $wt/demo_mut.log 2>&1; rc_mut=$?
suite=$(/venv/bin/python /verif/tools/baseline_check.py $wt/wt 2>&1 | tail -3 | tr '\n' ' ')
echo "$suite" | grep -q "missing=0" || res="suite-differs"
[ $rc_clean -eq 0 ] || res="demo-fails-on-clean-tree"
[ $rc_mut -ne 0 ] || res="demo-passes-with-change"
echo "$name: $res (demo clean rc=$rc_clean, with change rc=$rc_mut; $suite)"
if [ "$res" = "confirmed" ]; then
  d=/verif/seeded/$name; mkdir -p $d
  cp $out/$m.diff $d/patch.diff; cp $out/${m}_demo.py $d/demo.py; cp $out/${m}_notes.md $d/notes.md 2>/dev/null
  tail -3 $wt/demo_mut.log > $d/demo_output_with_change.txt
  python3 - "$prop" "$name" "$suite" $rc_clean $rc_mut <<'PY'
import json,sys,subprocess
prop,name,suite,rc_clean,rc_mut=sys.argv[1:6]
d=f"/verif/seeded/{name}"
files=subprocess.run(["grep","-E","^\\+\\+\\+ ",f"{d}/patch.diff"],capture_output=True,text=True).stdout.split()
meta={"property":prop,"name":name,"files":[f[2:] for f in files if f.startswith("b/")],
 "needs_to_manifest":"see notes.md",
 "confirmed":{"base_commit":subprocess.run(["git","-C","/repo","rev-parse","--short","HEAD"],capture_output=True,text=True).stdout.strip(),
   "suite":suite.strip(),"demo_rc_unchanged":int(rc_clean),"demo_rc_with_change":int(rc_mut),
   "commands":["git worktree add --detach <scratch> HEAD; git apply patch.diff","python /verif/tools/baseline_check.py <scratch>  (pinned suite, -n 14, compared with BASELINE.json stable_pass)","PYTHONPATH=<scratch> /venv/bin/python demo.py  (before and after applying)"]},
 "source":"independent sub-agent given only the property text and a scratch worktree"}
json.dump(meta,open(f"{d}/meta.json","w"),indent=1)
PY
fi
cd /; git -C /repo worktree remove --force $wt/wt; rm -rf $wt
