#!/venv/bin/python
"""Run every quick check against every seeded change (scratch copy, never /repo) and record who detects what.

usage: eval_seeded.py [--write] [name-substring ...]
  --write   update seeded/<name>/meta.json with `detected_by` (list of {property, rule, construct_contains}) and
            `cross_detected_by` (checks of OTHER properties that also fire); without it only prints the matrix.
Development aid; the selftest replays `detected_by` on every thorough run.
"""
import json
import os
import shutil
import subprocess
import sys
import tempfile
from concurrent.futures import ProcessPoolExecutor

VERIF = os.path.dirname(os.path.dirname(os.path.abspath(__file__)))
sys.path.insert(0, VERIF)
PROPS = ["C01", "C02", "C03", "C04", "C05", "C06", "C07", "C08", "C09", "C10", "C11", "C12", "C13", "C14", "C15", "C16", "C17", "C18", "C19", "C20"]


def one(name):
    from funsorlint.__main__ import run_check
    from funsorlint.model import AnalysisError
    d = os.path.join(VERIF, "seeded", name)
    tmp = tempfile.mkdtemp(prefix="fl_seed.")
    out = {"name": name, "hits": {}, "errors": {}}
    try:
        shutil.copytree("/repo/funsor", os.path.join(tmp, "funsor"), ignore=shutil.ignore_patterns("__pycache__"))
        r = subprocess.run(["patch", "-p1", "-s", "--no-backup-if-mismatch", "-d", tmp, "-i", os.path.join(d, "patch.diff")], capture_output=True, text=True)
        if r.returncode != 0:
            out["errors"]["patch"] = (r.stdout + r.stderr)[:200]
            return out
        for p in PROPS:
            ev = os.path.join(tmp, "ev")
            try:
                rc = run_check(p, "quick", tmp, evidence_dir=ev, quiet=True)
            except AnalysisError as e:
                out["errors"][p] = str(e)[:200]
                continue
            except Exception as e:
                out["errors"][p] = f"{type(e).__name__}: {e}"[:200]
                continue
            if rc == 1:
                with open(os.path.join(ev, "replay", f"{p}.json")) as f:
                    out["hits"][p] = [{"rule": v["rule"], "construct": v["construct"], "loc": v["loc"]} for v in json.load(f)["violations"]]
    finally:
        shutil.rmtree(tmp, ignore_errors=True)
    return out


def main():
    args = [a for a in sys.argv[1:] if not a.startswith("--")]
    write = "--write" in sys.argv
    names = sorted(n for n in os.listdir(os.path.join(VERIF, "seeded")) if os.path.exists(os.path.join(VERIF, "seeded", n, "patch.diff")))
    if args:
        names = [n for n in names if any(a in n for a in args)]
    with ProcessPoolExecutor(max_workers=min(12, len(names) or 1)) as ex:
        results = list(ex.map(one, names))
    for r in results:
        mp = os.path.join(VERIF, "seeded", r["name"], "meta.json")
        meta = json.load(open(mp))
        own = meta["property"]
        hits = r["hits"]
        mark = "DETECTED" if own in hits else ("cross-detected" if hits else "missed")
        print(f"{r['name']:48s} {mark:15s} " + "; ".join(f"{p}:{','.join(sorted({h['rule'] for h in hs}))}" for p, hs in hits.items())
              + ("  ERR " + json.dumps(r["errors"]) if r["errors"] else ""))
        if write:
            def ent(p, h):
                c = h["construct"]
                # a stable, line-free fragment of the construct: module::function
                frag = "::".join(c.split("::")[:2])
                return {"property": p, "rule": h["rule"], "construct_contains": frag}
            meta["detected_by"] = [ent(own, hits[own][0])] if own in hits else []
            meta["cross_detected_by"] = [ent(p, hs[0]) for p, hs in hits.items() if p != own]
            meta["all_reports"] = {p: [f"{h['rule']} {h['construct']}" for h in hs][:5] for p, hs in hits.items()}
            with open(mp, "w") as f:
                json.dump(meta, f, indent=1)


if __name__ == "__main__":
    main()
