#!/usr/bin/env python3
"""Regenerates /verif/MANIFEST.json from the table below (single source of truth for the interface)."""
import json, os
V = os.path.dirname(os.path.dirname(os.path.abspath(__file__)))
PY = "/venv/bin/python"

CLAIMS = {
 # id: (design_ref, technique, text, note)
}
NA = {}

def load():
    import importlib.util
    spec = importlib.util.spec_from_file_location("claims", os.path.join(V, "tools", "claims.py"))
    m = importlib.util.module_from_spec(spec); spec.loader.exec_module(m)
    return m.CLAIMS, m.NOT_APPLICABLE

def main():
    claims, na = load()
    checks = []
    for pid in sorted(claims):
        c = claims[pid]
        checks.append({
            "property_id": pid,
            "quick_cmd": f"cd /verif && {PY} -m funsorlint check {pid} --tier quick",
            "thorough_cmd": f"cd /verif && {PY} -m funsorlint check {pid} --tier thorough",
            "evidence_file": f"/verif/evidence/{pid}.json",
            "replay_cmd_template": f"cd /verif && {PY} -m funsorlint replay {{path}}",
            "engine": "funsorlint",
            "level_claimed": {"category": "other", "text": c["text"], "design_ref": c["design_ref"]},
            "level_note": c["note"],
            "technique": c["technique"],
        })
    man = {
        "version": 1,
        "setup_cmd": "true",
        "hooks": {
            "guard": "FUNSOR_VERIF",
            "enable": "not used - every check parses /repo's working tree with the stdlib ast module; no instrumentation exists in /repo",
            "baseline_off_cmd": "cd /repo && /venv/bin/python -m pytest -ra -q -p no:cacheprovider --timeout=900 --continue-on-collection-errors",
            "source_commits": [],
            "add_only": True,
        },
        "engines": [{
            "name": "funsorlint",
            "path": "/verif/funsorlint",
            "serves_properties": sorted(claims),
            "kind_free_text": "repository-specific static analyser (stdlib ast + networkx): module/name resolution, op/term/registry catalogue, statement CFG with exceptional edges, forward abstract interpretation (ownership, taint, op-role, IEEE special values), path-sensitive symbolic execution of interning protocols, per-property rule modules; no funsor code is imported or executed by a deciding step",
        }],
        "checks": checks,
        "notes": "Static analysis only. Exit 0 ok / 1 VIOLATION / 2 ANALYSIS-ERROR (analyser cannot do its job; never reported as a violation). /repo carries unguarded 'fix:' commits for the genuine defects the checks found (listed in KNOWN_FINDINGS.json); no hooks. tools/ holds development aids that are not part of any check.",
        "not_applicable": [{"property_id": k, "reason": v} for k, v in sorted(na.items())],
    }
    with open(os.path.join(V, "MANIFEST.json"), "w") as f:
        json.dump(man, f, indent=1)
    print("wrote MANIFEST.json with", len(checks), "checks and", len(na), "not-applicable")

main()
