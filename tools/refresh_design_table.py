#!/usr/bin/env python3
"""Rewrites the seeded-changes table of DESIGN.md (between the SEEDED-TABLE markers) from seeded/*/meta.json."""
import os, subprocess
V = os.path.dirname(os.path.dirname(os.path.abspath(__file__)))
p = os.path.join(V, "DESIGN.md")
s = open(p).read()
a, b = s.index("<!-- SEEDED-TABLE-BEGIN -->"), s.index("<!-- SEEDED-TABLE-END -->")
tab = subprocess.run(["python3", os.path.join(V, "tools", "seeded_table.py")], capture_output=True, text=True).stdout
s = s[:a] + "<!-- SEEDED-TABLE-BEGIN -->\n" + tab + s[b:]
open(p, "w").write(s)
print("table refreshed:", tab.count("\n") - 2, "rows")
