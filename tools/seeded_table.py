#!/usr/bin/env python3
"""Prints the markdown table of seeded changes and the checks that catch them (from seeded/*/meta.json)."""
import json, os
V = os.path.dirname(os.path.dirname(os.path.abspath(__file__)))
rows = []
for n in sorted(os.listdir(os.path.join(V, "seeded"))):
    mp = os.path.join(V, "seeded", n, "meta.json")
    if not os.path.exists(mp):
        continue
    m = json.load(open(mp))
    own = "; ".join(f"{d['property']} {d['rule']}" for d in m.get("detected_by", [])) or "—"
    cross = "; ".join(f"{d['property']} {d['rule']}" for d in m.get("cross_detected_by", [])) or "—"
    files = ", ".join(m.get("files", []))
    rows.append(f"| {n} | {files} | {own} | {cross} |")
print("| seeded change | file | caught by its own property's check | also caught by |")
print("|---|---|---|---|")
print("\n".join(rows))
