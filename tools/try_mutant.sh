#!/bin/bash
# usage: try_mutant.sh <patch.diff> <PROP> [more props...]
# Applies the patch to a scratch copy of /repo (outside /repo and /verif), runs the quick check(s) with --repo, removes the copy.
set -u
patch=$(readlink -f "$1"); shift
tmp=$(mktemp -d /tmp/fl_mut.XXXXXX)
mkdir -p $tmp/repo && cp -r /repo/funsor $tmp/repo/funsor && (cd $tmp/repo && git init -q . 2>/dev/null && git apply --unsafe-paths "$patch" 2>&1 || patch -p1 -s < "$patch")
rc_all=0
for prop in "$@"; do
  (cd /verif && /venv/bin/python -m funsorlint check $prop --tier quick --repo $tmp/repo --evidence-dir $tmp/ev 2>&1 | grep -E "^( +!!|VIOLATION|OK property|ANALYSIS-ERROR|KNOWN-FINDING|     )" | head -${LINES_MAX:-12})
done
rm -rf $tmp
